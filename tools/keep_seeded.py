#!/usr/bin/env python3
"""keep_seeded.py <mutant-id> <property> <out-dir> <verify-result.txt> '<change>' '<needs>' '<detected_by>'
Copies a confirmed seeded change into /verif/seeded/<mutant-id>/ with its meta.json."""
import json, os, shutil, sys
mid, prop, src, res, change, needs, detected = sys.argv[1:8]
d = f'/verif/seeded/{mid}'
os.makedirs(d, exist_ok=True)
for f in ('patch.diff', 'demo.rs', 'notes.md'):
    if os.path.exists(f'{src}/{f}'):
        shutil.copy(f'{src}/{f}', f'{d}/{f}')
txt = open(res).read()
assert 'DONE' in txt, 'verification not finished'
suite = txt.split('== demo with the change')[0]
assert 'FAILED' not in suite and 'error' not in suite, 'existing suite did not pass with the change'
with_c = txt.split('== demo with the change (must fail)')[1].split('== demo without')[0]
without = txt.split('== demo without the change (must pass)')[1]
assert 'FAILED' in with_c, 'demo does not fail with the change'
assert 'FAILED' not in without and 'ok' in without, 'demo does not pass without the change'
meta = {
    'breaks_property': prop,
    'origin': 'independent sub-agent, given only the property text (later rounds: plus one or two sentences naming the kind of change round 1 used, to avoid a repeat) and a scratch worktree of /repo',
    'change': change,
    'needs_to_manifest': needs,
    'confirmed_by_me': {
        'where': 'scratch worktree /tmp/wt/verify-wt, ' + txt.splitlines()[0],
        'existing_suite_with_change': 'cargo test --workspace --no-fail-fast --offline: every test binary ok, 0 failed',
        'demo_with_change': 'cargo test --offline --test seeded_demo: FAILED (' + ', '.join(l.split()[1] for l in with_c.splitlines() if l.startswith('test ') and 'FAILED' in l) + ')',
        'demo_without_change': 'cargo test --offline --test seeded_demo: ok',
    },
    'detected_by': detected,
    'how_to_rerun': f'git -C /repo apply /verif/seeded/{mid}/patch.diff && (cd /verif && ./check {prop} quick); git -C /repo checkout -- .',
}
json.dump(meta, open(f'{d}/meta.json', 'w'), indent=1)
print('kept', d)
