#!/usr/bin/env bash
# usage: tools/seeded_regress.sh [out-file]
# Applies every kept seeded change to /repo's working tree in turn (which must be clean), runs the quick
# check of the property it breaks (evidence redirected), expects a VIOLATION, and reverts the change.
out="${1:-/tmp/bg/seeded-regress.txt}"
: > "$out"
if [ -n "$(git -C /repo status --short)" ]; then echo "/repo is not clean" | tee -a "$out"; exit 2; fi
for d in /verif/seeded/*/; do
  id=$(basename "$d")
  prop=$(python3 -c "import json;print(json.load(open('$d/meta.json'))['breaks_property'])")
  patch="$d/patch.diff"; [ -f "$d/patch-rebased.diff" ] && patch="$d/patch-rebased.diff"
  if ! git -C /repo apply --check "$patch" 2>/dev/null; then echo "$id $prop PATCH-DOES-NOT-APPLY-AT-HEAD" >> "$out"; continue; fi
  git -C /repo apply "$patch"
  CSVERIF_OUT_DIR=/tmp/bg/seeded-regress-evidence timeout 1800 /verif/check "$prop" quick > /tmp/bg/seeded-regress-$id.log 2>&1
  code=$?
  sig=$(grep -m1 -o "violated: \[[^]]*\]" /tmp/bg/seeded-regress-$id.log)
  git -C /repo checkout -- .
  echo "$id $prop exit=$code $sig" >> "$out"
done
echo DONE >> "$out"
