#!/usr/bin/env python3
"""Regenerates /verif/MANIFEST.json from the table below (single source of truth)."""
import json, subprocess

HOOK_COMMITS = subprocess.run(
    ["git", "-C", "/repo", "log", "--format=%h %s", "--grep=^verif-hooks"],
    capture_output=True, text=True).stdout.strip().splitlines()

# property -> (level, technique, level text, level note, design ref)
CLAIMED = {
 "C04": ("exploration",
         "differential oracle: the same SQL on a fresh DataFusion context over an in-memory table of all ingested rows vs QueryNode::query, value-level row comparison by column name; datasets materialised in 3 chunk layouts, before / after compaction, both catalog backends, cold / warm cache, with / without adaptive indexing; frozen wall clock so now() agrees",
         "Held on every (dataset, variant, query) explored: 20-140 rows clustered at hour boundaries +-1 ns over several hours, Int64 and Timestamp(ns) time columns, nullable label; windows: closed / half-open / reversed operands / BETWEEN / equality / OR of equalities / OR of windows / negated bounds, bounds as integer literals, TIMESTAMP literals, to_timestamp_nanos(), arrow_cast(), now()-relative; extra predicates (label =, <>, IN, IS [NOT] NULL, OR, further timestamp predicates under OR / NOT); projections, SELECT *, aggregates, GROUP BY, ORDER BY..LIMIT.",
         "DataFusion 44 is the reference for SQL semantics (a bug common to both sides is invisible); queries use the columns of the default metrics schema (a fresh node plans against that schema first).",
         "DESIGN.md section 3 C04"),
 "C10": ("exploration",
         "deterministic simulation of concurrent queries on one QueryNode, gated only at the feature-gated pause points after table registration / after planning (release order chosen by the scheduler, both orders enumerated for two queries); real-thread stress without hooks; differential oracle (answer under concurrency vs alone vs DataFusion over the ingested rows)",
         "Held on every schedule / round explored: 2-3 concurrent queries with different windows / predicates (incl. the historical phase of a streaming query) released from the pause points in every order (2 queries) or seeded orders (3), and 8-16 queries per round on 8 real threads; every answer equals the answer of the query run alone, which equals the SQL reference.",
         "The pause points only add suspension points where a multi-threaded runtime can pre-empt anyway; interleavings inside DataFusion's planning / execution are reached only by the stress lane.",
         "DESIGN.md section 3 C10"),
 "C14": ("fault_enumeration",
         "fault enumeration over the recorded requests of a fault-free split (object-store requests; catalog calls for the in-memory backend), each failed before / after effect, then crash + resume on fresh instances (up to 5 attempts), optional nested second interruption; virtual time; end-state, conservation and ordering oracle over the final catalog and the event log",
         "Held on every interruption explored: per dataset EVERY request index of the fault-free split x both fault modes (the interruption space of that execution is enumerated completely), nested second interruptions sampled (quick) or enumerated over the first 12 requests of the resumed run (thorough), both catalog backends, datasets with rows below / at / above the split point (incl. a side without rows). End state must be two Active new shards partitioning the old range at the split point, old shard PendingDeletion, no split state, no progress file; rows(old) = rows(A) (+) rows(B) on the right sides, once; nothing of the old shard removed before the split state was gone.",
         "A crash loses exactly the splitter's in-memory state; faults are whole-request (before / after effect); the ingester's concurrent dual writes are C15's subject, not driven here.",
         "DESIGN.md section 3 C14"),
 "C15": ("exploration",
         "boundary observation of the shard id (recording catalog decorator), per-write catalog diff for routing; differential reads (QueryNode::query during the split vs DataFusion over the ingested rows, with the physical-table answer computed alongside to classify any deviation); input-level application of the feature-gated re-export of the private de-duplication routine (observation only)",
         "Held on every write and query explored: DualWrite and Backfill, rows below / at / above the split point, several series per (timestamp, metric), exact duplicates, a back-filled copy chunk present in Backfill; chunks newly registered under new shard A hold exactly the rows with ts < sp, under B exactly ts >= sp; six query shapes per scenario (rows, count, sum, GROUP BY, one-sided window, label predicate) equal the no-split reference. A deviation that equals the answer over the physical table (rows + copies) is reported as C15/read/answer-equals-physical-table-with-double-written-copies, anything else as C15/read/other-deviation.",
         "Int64 timestamps (the dual-write path refuses other types); DataFusion 44 as SQL reference; the de-duplication routine is no longer on the query path, what it does at input level is recorded as an observation only.",
         "DESIGN.md section 3 C15"),
 "C11": ("exploration",
         "generated hostile statements submitted through every query interface of the real services (QueryNode::query, axum router /api/v1/sql GET+POST, Prometheus endpoints with hostile matchers, FlightSqlQueryService execute / flight info / prepare / do_get, query_stream); before/after monitor over object listing (path, size, ETag), catalog, scratch directory, session tables/settings and a fixed probe query",
         "Held on every (statement, interface) explored: COPY ... TO (existing chunk path, new path, catalog object, local file, file:// URL), CREATE TABLE AS, CREATE [OR REPLACE] VIEW (incl. redefining metrics), CREATE EXTERNAL TABLE, DROP TABLE, INSERT, SET, EXPLAIN ANALYZE COPY, EXPLAIN of DDL, multi-statement strings, smuggled through PromQL matchers; nothing in storage, catalog, session or probe answer may change and writing / redefining statements must come back as an error.",
         "In-memory object store registered as memory://verif; local effects are only looked for under the scratch directory given in the statements.",
         "DESIGN.md section 3 C11"),
 "C18": ("exploration",
         "differential monitor: QueryFilter (input level) and the real ingester -> query_stream / query_stream_filtered pipeline (frozen merge instant via the interposed clock) vs DataFusion evaluating the same WHERE on the same flushed batch, row identity by unique ids; TopicBroadcastChannel / FilteredReceiver vs reference topic semantics",
         "Held on every case explored: WHERE clauses of the supported family (=, <>, <, <=, >, >= in either operand order, AND, OR, parentheses to depth 2; string / int / float / signed literals, int literal on float column and vice versa) x random batches (Int64 and Timestamp(ns) time column, nullable value and label columns, rows just before / at / after the merge instant); end to end: delivered rows per flushed batch, in flush order, once, on both receiver kinds; 40k random topic-filter trees (All / Shard / Tenant / Metrics / nested And / Or incl. empty lists) x batch metadata through the real channel.",
         "DataFusion 44 is the reference for predicate semantics; the subscriber keeps up (no lag), as the property assumes; the WebSocket transport is not driven.",
         "DESIGN.md section 3 C18"),
 "C16": ("exploration",
         "real-thread stress of CachedObjectStore/TieredCache with tiny tiers over write-once objects whose content is a PRF of the key; byte-for-byte oracle",
         "Held on every read explored: 6 tier configurations (L1 100 B..64 KB, L2 none / 1 MB / 16 MB on a real foyer disk tier), object sizes 0 B..200 KB (larger than a tier), 1-16 concurrent readers issuing whole / ranged / conditional reads on hot and cold keys while new objects keep being written; returned bytes must equal PRF(key)[range]; reads of never-written keys must fail.",
         "Write-once objects (the property's premise); thread interleavings are whatever the OS produces.",
         "DESIGN.md section 3 C16"),
 "C17": ("exploration",
         "generated well-formed requests through the real entry points (axum router POST /api/v1/write, OtlpGrpcService::export, FlightIngestService::process_stream) -> real ingester -> flushed chunk compared row by row; structure-aware hostile mutations; worker processes with a per-case progress file so that a panic, a process death or a hang (more than 20 s of the worker's user-mode CPU time inside one body without finishing it) is the recorded outcome",
         "Held on every request explored, apart from two recorded findings: remote-write (overlapping / disjoint label sets, missing metric name, value classes incl. +-0, 2^53+-, +-2^63, 2^64, 1e300, inf, NaN, subnormal; unknown fields), OTLP gauge / sum / histogram / summary with resource + point attributes and int/double points, Flight streams of 3 schemas; hostile: length varints := 0, 1, 2^31, 2^32-1, 2^63, 2^64-1, truncation, bit flips, concatenation, hostile unknown fields, random bytes, for all three protocols. Known findings (not repaired): OTLP ints above 2^53, labels named like reserved columns.",
         "Timestamps representable in ns and within two hours per request; prost is the reference for 'truncated encoding'; the hang verdict is taken on the receiving process's user-mode CPU time (more than 20 s inside one body where the typical body costs < 1 ms and the heaviest generated one about 1 s); kernel time and wall-clock time decide nothing (DESIGN.md 10.10); a receiver that blocks without using the CPU ends as inconclusive, not as a violation.",
         "DESIGN.md section 3 C17"),
 "C19": ("exploration",
         "random membership / health histories against the real NodeRegistry + ShardAssignment + DistributedWriteRouter in worker processes; logical step counter fed by the code's own trace events aborts and reports a route_write that exceeds 2*|nodes|+4 reassignments; registry re-read at return",
         "Held on every route_write call explored: 3 strategies, 1-6 nodes of any type / status / load (94/95 boundary), drain, remove, re-register, heartbeats, real run_health_checks with aged heartbeats (interposed CLOCK_MONOTONIC), rebalance, 1-8 shard ids; termination within the step bound, returned node eligible in the registry at return, assignment table names the returned node, assignment moves only when the previous node was ineligible / gone or a rebalance ran.",
         "'Bounded time' restated as at most 2*|nodes|+4 reassignment steps; single router, sequential histories.",
         "DESIGN.md section 3 C19"),
 "C03": ("exploration",
         "deterministic request-granularity simulation of 1-2 real Compactors (own catalog clients => stale candidate lists) with request faults, process crashes (incl. the lease-renewal task) and clock jumps past the lease TTL; offline monitor over EVERY catalog version: row-id reachability, exactly-once at quiescence, level arithmetic",
         "Held on every scenario explored: datasets built through the real ingester (unique row ids), 1-2 compactors x 1-3 cycles interleaved at object-store-request (object-store backend) or catalog-call (in-memory backend) granularity, 0-2 injected faults before/after effect, crash of a compactor at a scheduled step with a fresh instance taking over, clock jumps of up to 900 s; every catalog version must reach every original row, the final state must hold each row once, merged chunk level = max(replaced)+1, every listed chunk readable.",
         "Rows inside the retention window; chunk objects write-once; InMemory conditional PUT trusted; interleavings finer than a request are not explored.",
         "DESIGN.md section 3 C03"),
 "C09": ("exploration",
         "deterministic simulation of a real Compactor sharing a ChunkPinRegistry with real QueryNodes parked at their chunk reads, scheduler-controlled shared clock, compactor restart through run(); offline monitor over recorded DELETE requests (path, instant, pin state at that instant), catalog history and retention removals",
         "Held on every scenario explored: old / fresh / straddling / margin chunks, retention 1 / 90 / 36500 days, grace 0 / 1 / 300 s, 2-4 cycles, 0-2 query actors whose pins last as long as the scheduler likes, clock jumps across the grace period, restart via run() with persisted deletions. Every data-file DELETE judged: not in the current catalog, unreferenced >= grace, not pinned at that instant, once in the catalog; every retention removal judged against max_timestamp <= now - retention - skew; persisted deletions carried out by the restarted compactor within one cycle after grace (bounded progress, only in scenarios without pins).",
         "One process (shared pin registry) and one clock; skew margin read from BoundedClock::default(); the 'eventually deleted' part is restated as bounded progress.",
         "DESIGN.md section 3 C09"),
 "C20": ("exploration",
         "repeated compaction cycles of the real Compactor on random catalogs/configurations, observed through a recording MetadataClient decorator and the catalog versions; bounded-progress monitor for the fixed point",
         "Held on every (catalog, configuration) explored: 3-24 chunks over 1-3 hour buckets, optionally pre-levelled under another configuration and topped up with new L0 chunks; thresholds 2-4, level targets 2-12 KB (so level-N merges happen), level limit 2-4; candidate groups of each call disjoint, no chunk in two merges of a cycle, merges never mix levels, a path's level never decreases across catalog versions, catalog level = max(source)+1, chunk count never grows, fixed point within initial-count+2 cycles.",
         "'After finitely many cycles' is restated as the bound initial-chunk-count + 2 (each effective cycle removes at least one chunk); single compactor, no faults (C03 covers those).",
         "DESIGN.md section 3 C20"),
 "C01": ("fault_enumeration",
         "deterministic simulation of the real ingester on a gated object store with feature-gated pause hooks; crash images (store fork + WAL directory + acknowledged ids) taken at every non-read scheduling step and booted in a fresh simulator; request-fault plan (fail before / after effect); thorough tier enumerates the fault position over the request indices of each execution",
         "Held on every crash image explored: 1-3 concurrent writers, schema changes, threshold / timer / shutdown flushes, both catalog backends, 0-2 injected request faults (thorough: every ~n/24-th request index x both modes per execution), crash points at every request and pause hook, crash-restart-crash (recovery itself run gated and imaged, depth <= 2) and torn WAL tails made with the real encoder. Oracle per image: ensure_wal succeeds, and after the shutdown flush every acknowledged row id is in a chunk a fresh catalog client lists (duplicates allowed); catalog row counts match the chunks.",
         "WAL sync mode EveryWrite; crash preserves exactly the bytes in the WAL directory and the object store at a scheduler barrier (no partial object PUTs); interleavings finer than a request / pause hook are not explored.",
         "DESIGN.md section 3 C01"),
 "C06": ("exploration",
         "real-thread stress of the real ingester (multi-thread tokio runtime) + offline monitor: multiset comparison of canonical rows in registered chunks vs accepted writes, catalog entry vs decoded chunk, announcements on both broadcast channels vs registered chunks",
         "Held on every round explored: 1-8 concurrent writers x 2-10 batches, three schemas (Int64 / Timestamp(ns) time column, with/without label), extreme values (+-0, subnormal, +-inf, NaN, f64 limits, empty / non-ASCII / NUL strings, null labels), row and byte thresholds, fast timer flush, shutdown flush, tiny buffer limit (rejections), WAL on/off, both catalog backends, two subscribers draining concurrently.",
         "Fault-free by premise; rows of one round lie within a few hours (a chunk spanning decades explodes the hour-bucket index - noted in DESIGN.md, not part of C06); thread interleavings are whatever the OS produces (unsystematic).",
         "DESIGN.md section 3 C06"),
 "C02": ("exploration",
         "deterministic request-granularity simulation of concurrent metadata clients + offline monitor over the recorded object-store event log (commit-order replay on a sequential map model, per-version index/chunk-map agreement)",
         "Held on every explored schedule: 2-4 real ObjectStoreMetadataClients x 2-8 mutations interleaved at object-store-request granularity (uniform, PCT and starvation strategies, first-write creation races, retry exhaustion); EVERY catalog version ever written is compared with the sequential model replayed in commit order, failed operations must have committed nothing. Sampled schedules, not all of them.",
         "InMemory object store's conditional PUT is the trusted base; interleavings finer than one object-store request are not explored; HashMap order / UUIDs make replays best-effort, so the witness event log is stored in the replay file.",
         "DESIGN.md section 3 C02"),
 "C05": ("fault_enumeration",
         "crash/cut fault injection with the real WAL encoder + reference model of completely written entries; per crash point the cut offsets of the final write are enumerated (thorough: every byte)",
         "Held on every (history, crash, cut) explored: random append / flush-mark / reopen histories over several segment limits, 1-3 consecutive crash rounds; at each crash the final write is cut at a battery of offsets (quick) or at every byte (thorough) plus rotation-created empty segment and torn flushed_seq file; after each cut: reopen, compare with the model, append, reopen, append, reopen; sequence numbers checked against acknowledged entries and persisted flushed marks.",
         "Crash model: only the final write is torn (prefix), plus the 8-byte flushed_seq file; sync mode EveryWrite; bit rot inside older records is out of scope.",
         "DESIGN.md section 3 C05"),
 "C07": ("exploration",
         "differential monitor: identical random histories on LocalMetadataClient, ObjectStoreMetadataClient and a reference interval map, boundary-biased range lookups after every operation",
         "Held on every lookup explored: random register / re-register / delete / complete_compaction histories on both backends and an interval-map model, ~24 boundary-biased ranges (hour multiples +-1 ns, negative, zero-length, multi-day, inverted, chunk end points) after every operation, plus list_chunks/get_chunk and a fresh object-store client at the end.",
         "Timestamps within +-60 years of the epoch (bucket stepping near i64 limits is exercised in C06's guarded sub-case); InMemory store trusted.",
         "DESIGN.md section 3 C07"),
 "C08": ("exploration",
         "deterministic request-granularity simulation with scheduler-controlled shared wall clock (interposed clock_gettime) + offline monitor over every version of the lease file; real-thread stress on the in-memory backend",
         "Held on every explored schedule: 2-4 nodes x 3-8 lease operations over 4-6 chunks, clock jumps (+1..+400 s) placed anywhere incl. between a GET and its PUT; every lease-file version checked for pairwise-disjoint live leases, no live lease removed/shortened/taken over, refusals justified by a live lease on the table read, renew/acquire results consistent with the committed version; in-memory backend: concurrent acquires, renew-in-time, reclaim after expiry, displaced holder told at renew.",
         "One clock for all nodes (as the property assumes); no TTL constant assumed by the oracle; InMemory conditional PUT trusted.",
         "DESIGN.md section 3 C08"),
 "C13": ("exploration",
         "deterministic request-granularity simulation (object-store backend) with offline monitor over every version of the shard object; real-thread stress with a rendezvous at the feature-gated sync points (in-memory backend, ShardRouter)",
         "Held on every explored schedule / round: 2-4 nodes racing updates and creations with equal, stale and freshly read generations; every committed version of shards/<id>.json checked (generation +1, based-on generation equals stored, one creation, content from the committing update, failures without effect); in-memory backend and router: k threads issuing the same-generation update / crossing generations with the check-then-write window widened by the sync hooks.",
         "InMemory conditional PUT trusted; the stress lane is unsystematic (real threads).",
         "DESIGN.md section 3 C13"),
 "C12": ("exploration",
         "differential monitor: three-valued SQL reference evaluator over generated rows vs evaluate_against_stats / get_chunks_with_predicates / SQL->extract_column_predicates",
         "Held on every (rows, statistics, predicate) case generated: millions of random predicate trees (all operators, depth<=4, constants biased to the statistics' end points), statistics that are true, widened, missing, null or mistyped; the same through the object-store catalog and from SQL text with DataFusion as row-level reference. Random exploration, not exhaustive: the right level for an input-quantified pure function.",
         "Reference semantics = SQL three-valued logic with Int/Float comparisons in f64 (as the engine coerces); DataFusion evaluates WHERE correctly on a MemTable.",
         "DESIGN.md section 3 C12"),
}

# Later additions (DESIGN.md 10.2): property -> (technique suffix, level text suffix, note override or None)
ADDENDA = {
 "C01": ("durability watch (interposed fdatasync / fsync) for power-loss variants of the crash images; contention bursts (lost compare-and-swap races produced by the backing store itself, up to retry exhaustion)",
         "Also: a third of the images as power-loss variants (every WAL segment cut back to its synced length), a quarter of the executions with the written shards in the dual-write phase of a split (write_with_split_awareness; copies under new shards do not count), a quarter with 2-11 lost catalog races in a row; buffer-model lane (WriteBuffer append / take / prepend: every batch keeps the WAL sequence number it was appended with).", None),
 "C02": ("", "The operation mix includes swap_compacted_chunk (the compactor's publication step), refused unless every source is present. Every listing a node serves through its own catalog cache (after each of its operations) must be the listing of the initial catalog or of a version that was actually stored.", None),
 "C03": ("contention bursts up to retry exhaustion; real-thread swap-stress lane on the in-memory catalog (concurrent swaps of the same sources)",
         "Also: a fifth of the scenarios with a burst of lost compare-and-swap races on the metadata objects; now and then a chunk of more than 1024 / 8192 rows; in-memory catalog: 2-4 swaps of the same sources from real threads, exactly one may win. The evidence counts the merges observed to write a whole number of 1024- / 8192-row batches (0-2 per quick run: thin, see DESIGN 10.9).", None),
 "C05": ("durability watch: at the instant an append returns (sync mode EveryWrite) the active segment has no byte beyond its synced length", "Segment limits include 0, 1 and usize::MAX.", None),
 "C04": ("", "A sixth of the datasets lie around the epoch (rows with negative timestamps).", None),
 "C08": ("contention bursts on the lease file (retry exhaustion) in a sixth of the schedules", "", None),
 "C19": ("eligibility of the returned node also judged from the history itself (drained and not registered again / query-only / last reported load >= 95 %), independent of the registry's bookkeeping; every route call bounded by one hour of the runtime's virtual clock (a call parked for good is a verdict in logical time, not a wall-clock watchdog)", "", None),
 "C20": ("", "Configurations include the degenerate ones: merge thresholds 0, 1 and usize::MAX, target sizes 0, 1 and usize::MAX, level limits 0 and 1. One case in three starts with a lease held by another compactor on an L0 group, given up after one or two cycles; every granted lease counts as a selected group (a chunk in two of them within one cycle is a violation).", None),
 "C06": ("extreme-timestamp lane in a worker process under RLIMIT_AS / RLIMIT_CPU",
         "One round in twelve with requests and flushes of exactly 1024 / 4096 / 8192 / 16384 / 24576 rows and their neighbours. Also: batches whose timestamps lie within hours of i64::MAX / i64::MIN through the real ingester (catalog entry and stored rows exact, no resource blow-up); a sixth of the rounds re-send batches verbatim (byte-identical flushes must both be stored); thresholds 0 / 1, batches of a few thousand rows; buffer-model lane (WriteBuffer against a list model).",
         "Fault-free by premise; rows of one round lie within a few hours (a chunk spanning decades makes the hour-bucket index large by design - noted in DESIGN.md, not part of C06); thread interleavings are whatever the OS produces (unsystematic); wall-clock watchdogs never feed the verdict."),
 "C07": ("extreme-timestamp lane in a worker process under RLIMIT_AS / RLIMIT_CPU; every other history on a catalog object where every 2nd / 3rd / 5th conditional update loses its race and is repeated",
         "Also: narrow chunk intervals within hours of i64::MAX / i64::MIN on both backends (register, look up, delete) against the interval model.",
         "InMemory store trusted; the extreme-timestamp cases run under 3 GiB address space / 90 s CPU, exceeding either is the verdict 'resource exhaustion'."),
 "C09": ("0-1 storage faults (before / after effect) and contention bursts in the scenario plan",
         "Also: scenarios with a failed / lost-response request or a burst of lost catalog races; the safety rules are judged in every history, 'persisted deletions are carried out after a restart' only in fault-free ones; a never-referenced file may be deleted once the grace period has passed since its upload. Settings include 'keep for ever' retention (200000 days, u32::MAX) and 'never collect' grace periods (2^50 s, u64::MAX s). Pin-model lane: the real ChunkPinRegistry under overlapping queries and delete claims against reference counts (a pin may not vanish while its guard is alive). One-day-retention scenarios carry a fault aimed at one of the compactor's first four catalog writes every other time (a quarter elsewhere): a quick run sees about 200 retention deletes that were reported as failed (counter retention_deletes_reported_failed).", None),
 "C10": ("one failed read of the query node in a third of the simulated cases", "Under a failed read an error may be a query's answer, another query's chunk set may not.", None),
 "C11": ("18 interfaces: also the POST forms of the Prometheus endpoints, query_range, labels, label values (hostile label name in the path), series POST and raw SQL over a loopback WebSocket", "Hostile text is also placed in grouping lists and label names; inner queries and SET statements that never mention the metrics table (catalog lookups, constants).", None),
 "C12": ("", "SQL lane also spells predicates as x NOT BETWEEN a AND b, x NOT IN (..), !=, literal on the left, one-element IN; statements reading the table twice (UNION ALL, joined CTEs) and derived tables re-using a stored column's name; BETWEEN / IN operands of mixed numeric literal types, chunks holding only integers beyond 2^53 with near-tie predicates.", None),
 "C13": ("router-model lane: sequential histories of routing updates in every shard state, invalidations and TTL expiry (interposed monotonic clock) against a three-line model",
         "Router: an update is taken unless an entry with a larger generation is cached, whatever that entry's state or age; a lookup never returns a generation below the newest one the router was told and has not invalidated.", None),
 "C14": ("contention bursts of 5 and of 2 lost compare-and-swap races starting at every conditional PUT of the fault-free split (retry exhaustion as an interruption class)",
         "Also: every third dataset holds a chunk of more than 8192 rows (several back-fill copies per side).", None),
 "C15": ("refused split-state lookups for a fifth of the writes (accepted => copied)", "Read lane on both catalog backends, every other scenario with a second shard splitting at the same time; requests sent again verbatim during the split, the new shards judged as a whole at the end.", None),
 "C16": ("", "Also get_ranges, reads of a key before the writer reaches it (read again once it exists), twin objects (same file name in another directory, other content), tier sizes 0 and 1; every other configuration on a backing store whose downloads arrive in pieces and are now and then cut in the middle of the body; get_opts with holding preconditions combined with bounded / offset / suffix ranges.", None),
 "C17": ("", "Remote-write label order as senders produce it (name first / sorted incl. upper-case names / shuffled); OTLP typed attribute values, point attribute overriding a resource attribute, two scopes per resource; requests with no series or a few hundred, series with ~100 samples.", None),
 "C18": ("lane 4: the same subscriptions over a loopback WebSocket to /api/v1/stream, the observed window delimited by sentinel batches (no timing in the verdict); lane 5: topic-filtered delivery end to end with the batch metadata derived by the real ingester",
         "Also over the WebSocket transport, and topic filters (tenant / shard / metric sets, And / Or) against the metadata the ingester derives for batches with several metric names. Every other end-to-end subscription runs against a catalog that refuses writes during some flushes (the rows of a failed flush go out with the next one and must arrive once).",
         "DataFusion 44 is the reference for predicate semantics; the subscriber keeps up (no lag), as the property assumes."),
}

NOT_YET = "not claimed"

def main():
    checks = []
    for pid in sorted(CLAIMED):
        level, technique, text, note, ref = CLAIMED[pid]
        if pid in ADDENDA:
            t2, x2, n2 = ADDENDA[pid]
            if t2:
                technique = technique + "; " + t2
            if x2:
                text = text + " " + x2
            if n2:
                note = n2
        checks.append({
            "property_id": pid,
            "quick_cmd": f"./check {pid} quick",
            "thorough_cmd": f"./check {pid} thorough",
            "evidence_file": f"/verif/evidence/{pid}.json",
            "replay_cmd_template": "cat {path}",
            "engine": "csverif",
            "level_claimed": {"category": level, "text": text, "design_ref": ref},
            "level_note": note,
            "technique": technique,
        })
    na = [{"property_id": "C%02d" % i, "reason": NOT_YET} for i in range(1, 21) if "C%02d" % i not in CLAIMED]
    m = {
        "version": 1,
        "setup_cmd": "cd /verif/harness && CARGO_NET_OFFLINE=true cargo build --offline 2>&1 | tail -3",
        "hooks": {
            "guard": "cargo feature verif-hooks (off by default)",
            "enable": "the harness crate /verif/harness depends on cardinalsin by path with features = [\"verif-hooks\"]; ./check rebuilds it from /repo's working tree on every run",
            "baseline_off_cmd": "cd /repo && cargo test --workspace --no-fail-fast --offline",
            "source_commits": [l.split()[0] for l in HOOK_COMMITS],
            "add_only": True,
        },
        "engines": [{
            "name": "csverif",
            "path": "/verif/harness",
            "serves_properties": sorted(CLAIMED),
            "kind_free_text": "one Rust binary linking the real cardinalsin crate: deterministic request-granularity simulator (gated ObjectStore, paused tokio clock, interposed wall clock, fault plan, crash images), real-thread stress runner, reference models / differential oracles, input generators; monitors decide over recorded boundary events",
        }],
        "checks": checks,
        "notes": "Verdicts are three-valued (exit 0 held / 1 VIOLATION / 2 INCONCLUSIVE). Known findings: /verif/known_findings.json. Seeded mutants: /verif/seeded/. VERIF_SEED selects the random stream.",
        "not_applicable": na,
    }
    json.dump(m, open("/verif/MANIFEST.json", "w"), indent=1)
    print("claimed:", sorted(CLAIMED), "unclaimed:", len(na))

if __name__ == "__main__":
    main()
