#!/usr/bin/env python3
"""Regenerates /verif/MANIFEST.json from the table below (single source of truth)."""
import json, subprocess

HOOK_COMMITS = subprocess.run(
    ["git", "-C", "/repo", "log", "--format=%h %s", "--grep=^verif-hooks"],
    capture_output=True, text=True).stdout.strip().splitlines()

# property -> (level, technique, level text, level note, design ref)
CLAIMED = {
 "C12": ("exploration",
         "differential monitor: three-valued SQL reference evaluator over generated rows vs evaluate_against_stats / get_chunks_with_predicates / SQL->extract_column_predicates",
         "Held on every (rows, statistics, predicate) case generated: millions of random predicate trees (all operators, depth<=4, constants biased to the statistics' end points), statistics that are true, widened, missing, null or mistyped; the same through the object-store catalog and from SQL text with DataFusion as row-level reference. Random exploration, not exhaustive: the right level for an input-quantified pure function.",
         "Reference semantics = SQL three-valued logic with Int/Float comparisons in f64 (as the engine coerces); DataFusion evaluates WHERE correctly on a MemTable.",
         "DESIGN.md section 3 C12"),
}

NOT_YET = "check not built yet (work in progress, see DESIGN.md section 9)"

def main():
    checks = []
    for pid in sorted(CLAIMED):
        level, technique, text, note, ref = CLAIMED[pid]
        checks.append({
            "property_id": pid,
            "quick_cmd": f"./check {pid} quick",
            "thorough_cmd": f"./check {pid} thorough",
            "evidence_file": f"/verif/evidence/{pid}.json",
            "replay_cmd_template": "cat {path}",
            "engine": "csverif",
            "level_claimed": {"category": level, "text": text, "design_ref": ref},
            "level_note": note,
            "technique": technique,
        })
    na = [{"property_id": "C%02d" % i, "reason": NOT_YET} for i in range(1, 21) if "C%02d" % i not in CLAIMED]
    m = {
        "version": 1,
        "setup_cmd": "cd /verif/harness && CARGO_NET_OFFLINE=true cargo build --offline 2>&1 | tail -3",
        "hooks": {
            "guard": "cargo feature verif-hooks (off by default)",
            "enable": "the harness crate /verif/harness depends on cardinalsin by path with features = [\"verif-hooks\"]; ./check rebuilds it from /repo's working tree on every run",
            "baseline_off_cmd": "cd /repo && cargo test --workspace --no-fail-fast --offline",
            "source_commits": [l.split()[0] for l in HOOK_COMMITS],
            "add_only": True,
        },
        "engines": [{
            "name": "csverif",
            "path": "/verif/harness",
            "serves_properties": sorted(CLAIMED),
            "kind_free_text": "one Rust binary linking the real cardinalsin crate: deterministic request-granularity simulator (gated ObjectStore, paused tokio clock, interposed wall clock, fault plan, crash images), real-thread stress runner, reference models / differential oracles, input generators; monitors decide over recorded boundary events",
        }],
        "checks": checks,
        "notes": "Verdicts are three-valued (exit 0 held / 1 VIOLATION / 2 INCONCLUSIVE). Known findings: /verif/known_findings.json. Seeded mutants: /verif/seeded/. VERIF_SEED selects the random stream.",
        "not_applicable": na,
    }
    json.dump(m, open("/verif/MANIFEST.json", "w"), indent=1)
    print("claimed:", sorted(CLAIMED), "unclaimed:", len(na))

if __name__ == "__main__":
    main()
