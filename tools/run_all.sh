#!/usr/bin/env bash
# usage: tools/run_all.sh <quick|thorough> <seed> <out-dir> [props...]
# Runs every check (or the listed ones) once with a private copy of the freshly built binary,
# evidence redirected to <out-dir>/evidence, and writes <out-dir>/summary.txt.
tier="${1:-quick}"; seed="${2:-1}"; out="${3:-/tmp/bg/all-$tier-$seed}"; shift 3 || true
props=("$@"); [ ${#props[@]} -eq 0 ] && props=(C01 C02 C03 C04 C05 C06 C07 C08 C09 C10 C11 C12 C13 C14 C15 C16 C17 C18 C19 C20)
mkdir -p "$out/evidence"
cd /verif/harness && CARGO_NET_OFFLINE=true cargo build --offline >"$out/build.log" 2>&1 || { echo "build failed" >"$out/summary.txt"; exit 2; }
cp target/debug/csverif "$out/csverif"
: > "$out/summary.txt"
for p in "${props[@]}"; do
  s=$(date +%s)
  CSVERIF_OUT_DIR="$out/evidence" VERIF_SEED="$seed" timeout 7200 "$out/csverif" "$p" --tier "$tier" --seed "$seed" >"$out/$p.log" 2>&1
  echo "$p exit=$? secs=$(( $(date +%s) - s )) $(grep -c '^VIOLATION' "$out/$p.log") violations" >> "$out/summary.txt"
done
rm -f "$out/csverif"
echo ALL-DONE >> "$out/summary.txt"
