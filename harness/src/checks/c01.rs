//! C01 — acknowledged writes survive crashes and storage faults.
//!
//! SIM: the real Ingester (WAL on, fsync every write) with 1–3 writer tasks, a
//! timer flush and a shutdown flush runs on the gated store; the repository's
//! pause hooks add crash / interleaving points between steps that contain no
//! await. A fault plan fails 0–2 object-store / catalog requests before or
//! after their effect. At every scheduling step a *crash image* (fork of the
//! store + copy of the WAL directory + the rows acknowledged so far) is taken;
//! every image is later booted in a fresh simulator: ensure_wal, shutdown
//! flush, read every chunk a fresh catalog client lists. Oracle: every
//! acknowledged row id is there (duplicates allowed). A sample of boots is
//! itself run gated and crashed again (crash-restart-crash), and a sample of
//! images gets a torn WAL tail produced with the real encoder.

use crate::clock;
use crate::outcome::Outcome;
use crate::rng::{hash_str, Rng};
use crate::rows::{self, RowSpec, SchemaKind};
use crate::sim::{self, Ctl, Fault, FaultMode, Scheduler, Step, Strategy};
use crate::simmeta::RecMeta;
use crate::util;
use crate::Ctx;
use cardinalsin::ingester::{Ingester, IngesterConfig, WalConfig, WalSyncMode, WriteAheadLog};
use cardinalsin::metadata::{LocalMetadataClient, MetadataClient, ObjectStoreMetadataClient, ObjectStoreMetadataConfig};
use cardinalsin::schema::MetricSchema;
use cardinalsin::{CloudProvider, StorageConfig};
use object_store::memory::InMemory;
use object_store::ObjectStore;
use serde_json::{json, Value};
use std::collections::BTreeSet;
use std::path::PathBuf;
use std::sync::Arc;
use std::time::Duration;

pub fn storage_config() -> StorageConfig {
    StorageConfig { provider: CloudProvider::Memory, container: "verif".into(), tenant_id: "t".into() }
}

/// WAL segment limit of the execution being explored (and of the boots of its images); set per execution.
static SEGMENT_LIMIT: std::sync::atomic::AtomicUsize = std::sync::atomic::AtomicUsize::new(700);

pub fn ingester_config(wal_dir: &str, flush_rows: usize, interval_ms: u64) -> IngesterConfig {
    IngesterConfig {
        flush_interval: Duration::from_millis(interval_ms),
        flush_row_count: flush_rows,
        flush_size_bytes: 1 << 30,
        batch_timeout: Duration::from_millis(10),
        batch_size_bytes: 1 << 20,
        flush_parallelism: 1,
        max_buffer_size_bytes: 1 << 30,
        wal: WalConfig {
            wal_dir: PathBuf::from(wal_dir),
            // mostly small: rotations and segment-granular truncation are exercised
            max_segment_size: SEGMENT_LIMIT.load(std::sync::atomic::Ordering::Relaxed),
            sync_mode: WalSyncMode::EveryWrite,
            enabled: true,
        },
    }
}

#[derive(Clone)]
struct Image {
    label: String,
    store: Arc<InMemory>,
    wal_dir: String,
    /// chunks registered in the in-memory catalog (Local backend only)
    local_catalog: Vec<(String, i64, i64, u64, u64)>,
    acked: BTreeSet<i64>,
    depth: u32,
}

#[derive(Clone)]
struct Plan {
    local_backend: bool,
    writers: Vec<Vec<(SchemaKind, Vec<RowSpec>, u64)>>, // (schema, rows, think ms before)
    flush_rows: usize,
    faults: Vec<Fault>,
    strategy: Strategy,
    /// the shards the writes map to are in the dual-write phase of a split: writes take
    /// Ingester::write_with_split_awareness
    dual_write: bool,
    /// WAL segment limit (1 = every entry in a segment of its own, 1 MiB = never rotates here)
    seg: usize,
    /// (from, count): a burst of lost compare-and-swap races on catalog.json (object-store backend)
    contention: Option<(u64, u64)>,
}

fn gen_plan(rng: &mut Rng, idx: u64, thorough_fault: Option<(u64, FaultMode)>) -> Plan {
    let nwriters = 1 + rng.usize(3);
    let mut next_id = (idx as i64) * 10_000;
    let writers = (0..nwriters)
        .map(|_| {
            let n = 2 + rng.usize(4);
            (0..n)
                .map(|_| {
                    let kind = if rng.chance(1, 4) { SchemaKind::B } else { SchemaKind::A };
                    let k = 1 + rng.usize(4);
                    let rows: Vec<RowSpec> = (0..k)
                        .map(|_| {
                            next_id += 1;
                            RowSpec {
                                id: next_id,
                                ts: clock::SIM_EPOCH_NS - rng.range(0, 3_000_000_000_000),
                                metric: format!("m{}", rng.below(2)),
                                host: if rng.chance(1, 3) { None } else { Some(format!("h{}", rng.below(3))) },
                                value: next_id as f64,
                            }
                        })
                        .collect();
                    (kind, rows, rng.below(40))
                })
                .collect()
        })
        .collect();
    let mut faults = vec![];
    match thorough_fault {
        Some((k, m)) => faults.push(Fault { actor: None, index: k, mode: m }),
        None => {
            let nf = *rng.pick(&[0usize, 0, 1, 1, 1, 2]);
            for _ in 0..nf {
                faults.push(Fault {
                    actor: None,
                    index: rng.below(40),
                    mode: if rng.chance(1, 2) { FaultMode::Before } else { FaultMode::After },
                });
            }
        }
    }
    let strategy = match rng.below(10) {
        0..=5 => Strategy::Uniform,
        _ => Strategy::Pct { change_points: (0..3).map(|_| rng.below(80)).collect() },
    };
    let local_backend = rng.chance(1, 4);
    // (now and then the degenerate threshold: every write is a flush)
    let flush_rows = if rng.chance(1, 10) { rng.usize(2) } else { 3 + rng.usize(6) };
    let dual_write = rng.chance(1, 4);
    // 5 lost races in a row exhaust register_chunk's retry budget (Error::TooManyRetries reaches the flush)
    let contention = if rng.chance(1, 4) { Some((rng.below(3), *rng.pick(&[2u64, 5, 5, 6, 11]))) } else { None };
    let seg = *rng.pick(&[1usize, 300, 700, 700, 700, 1 << 20]);
    Plan { local_backend, writers, flush_rows, faults, strategy, dual_write, seg, contention }
}

fn snapshot_wal(wal_dir: &str, root: &str, n: &mut u64) -> String {
    *n += 1;
    let d = format!("{}/img{}", root, n);
    let _ = util::copy_dir(wal_dir, &d);
    d
}

/// Power-loss variant of a WAL directory: every segment is cut back to the length that had been
/// fdatasync'ed (observed through the interposed libc symbols) - what a power failure, unlike a
/// process crash, leaves behind. With sync mode EveryWrite acknowledged entries must survive it.
fn powerloss_wal(wal_dir: &str, root: &str, n: &mut u64) -> String {
    let d = snapshot_wal(wal_dir, root, n);
    if let Ok(rd) = std::fs::read_dir(wal_dir) {
        for e in rd.flatten() {
            let name = e.file_name().to_string_lossy().to_string();
            if !name.starts_with("segment-") {
                continue;
            }
            let orig = e.path().to_string_lossy().to_string();
            let canon = std::fs::canonicalize(&orig).map(|c| c.to_string_lossy().to_string()).unwrap_or(orig.clone());
            let durable = clock::durable_len(&canon).or_else(|| clock::durable_len(&orig)).unwrap_or(0);
            let copy = format!("{}/{}", d, name);
            if let Ok(f) = std::fs::OpenOptions::new().write(true).open(&copy) {
                let len = f.metadata().map(|m| m.len()).unwrap_or(0);
                if durable < len {
                    let _ = f.set_len(durable);
                }
            }
        }
    }
    d
}

/// Boot an image: recover, flush, and return the ids reachable through the catalog
/// (plus the recovered buffer's row count). Optionally gated, producing sub-images.
struct BootResult {
    ensure_err: Option<String>,
    recovered_rows: usize,
    catalog_ids: Vec<i64>,
    read_errors: Vec<String>,
    sub_images: Vec<Image>,
    steps: u64,
}

fn boot(img: &Image, gated: Option<Rng>, root: &str, counter: &mut u64) -> BootResult {
    let img = img.clone();
    let root = root.to_string();
    let mut local_counter = *counter;
    let r = sim::run_sim(async move {
        clock::freeze_wall(clock::SIM_EPOCH_NS + 3_600_000_000_000);
        let ctl = Ctl::with_backing(Arc::new(img.store.fork()));
        ctl.set_hooks(true);
        let local = Arc::new(LocalMetadataClient::new());
        for (p, a, b, rows, size) in &img.local_catalog {
            let _ = local
                .register_chunk(p, &cardinalsin::ingester::ChunkMetadata { path: p.clone(), min_timestamp: *a, max_timestamp: *b, row_count: *rows, size_bytes: *size })
                .await;
        }
        let use_local = !img.local_catalog.is_empty() || img.label.contains("local");
        let meta: Arc<dyn MetadataClient> = if use_local {
            local.clone()
        } else {
            Arc::new(ObjectStoreMetadataClient::new(ctl.store("boot-meta"), ObjectStoreMetadataConfig::default()))
        };
        let mut ing = Ingester::new(ingester_config(&img.wal_dir, 1_000_000, 50), ctl.store("boot"), meta.clone(), storage_config(), MetricSchema::default_metrics());
        let mut sub_images = vec![];
        let mut steps = 0u64;
        let mut ensure_err = None;
        let mut recovered_rows = 0usize;
        if let Some(srng) = gated {
            // crash-restart-crash: run the recovery itself under the scheduler and image it at every step
            ctl.set_gating(true);
            let ctl2 = ctl.clone();
            let h = sim::spawn_actor("boot", async move {
                let r = ing.ensure_wal().await;
                let rows = ing.buffer_stats().await.row_count;
                let ing = Arc::new(ing);
                let tok = ing.shutdown_token();
                tok.cancel();
                ing.run_flush_timer().await;
                let _ = &ctl2;
                (r.err().map(|e| e.to_string()), rows)
            });
            let mut sched = Scheduler::new(srng, Strategy::Uniform);
            while !h.is_finished() {
                if let Step::Released(p) = sched.step(&ctl).await {
                    if p.op != "GET" {
                        sim::barrier().await;
                        let d = snapshot_wal(&img.wal_dir, &root, &mut local_counter);
                        let lc = local_catalog_of(&local).await;
                        sub_images.push(Image {
                            label: format!("{}>recrash@{}:{}", img.label, p.op, p.path),
                            store: Arc::new(ctl.backing.fork()),
                            wal_dir: d,
                            local_catalog: if use_local { lc } else { vec![] },
                            acked: img.acked.clone(),
                            depth: img.depth + 1,
                        });
                    }
                }
                if sched.steps > 5000 {
                    break;
                }
            }
            steps = sched.steps;
            ctl.set_gating(false);
            if let Ok((e, rows)) = h.await {
                ensure_err = e;
                recovered_rows = rows;
            }
        } else {
            match ing.ensure_wal().await {
                Ok(()) => {}
                Err(e) => ensure_err = Some(e.to_string()),
            }
            recovered_rows = ing.buffer_stats().await.row_count;
            let ing = Arc::new(ing);
            ing.shutdown_token().cancel();
            ing.run_flush_timer().await;
        }
        // what a fresh catalog client sees
        let fresh: Arc<dyn MetadataClient> = if use_local {
            local.clone()
        } else {
            Arc::new(ObjectStoreMetadataClient::new(ctl.store("fresh"), ObjectStoreMetadataConfig::default()))
        };
        let mut ids = vec![];
        let mut read_errors = vec![];
        match fresh.list_chunks().await {
            Ok(chunks) => {
                for c in chunks {
                    if c.chunk_path.contains("shard=new-") {
                        // a dual-write copy under a new shard: not read by queries while the split runs,
                        // so it does not count as "the row is there"
                        continue;
                    }
                    match rows::read_chunk_ids(ctl.backing.as_ref(), &c.chunk_path).await {
                        Ok(v) => {
                            if v.len() as u64 != c.row_count {
                                read_errors.push(format!("chunk {} holds {} rows, catalog says {}", c.chunk_path, v.len(), c.row_count));
                            }
                            ids.extend(v)
                        }
                        Err(e) => read_errors.push(e),
                    }
                }
            }
            Err(e) => read_errors.push(format!("list_chunks: {e}")),
        }
        (BootResult { ensure_err, recovered_rows, catalog_ids: ids, read_errors, sub_images, steps }, local_counter)
    });
    *counter = r.1;
    r.0
}

async fn local_catalog_of(local: &LocalMetadataClient) -> Vec<(String, i64, i64, u64, u64)> {
    local
        .list_chunks()
        .await
        .map(|v| v.into_iter().map(|e| (e.chunk_path, e.min_timestamp, e.max_timestamp, e.row_count, e.size_bytes)).collect())
        .unwrap_or_default()
}

pub fn run(ctx: &Ctx) -> Outcome {
    let mut out = Outcome::new(
        "C01",
        "case = one crash image (store fork + WAL directory + acknowledged ids) booted and checked; images are taken after every non-read \
         scheduling step of an execution of the real ingester (1-3 writers, threshold / timer / shutdown flush, schema changes, 0-2 injected \
         request faults before/after effect; thorough: the fault position is enumerated over every request index of the execution), plus \
         crash-restart-crash images and torn-WAL-tail variants; non-trivial = the image holds at least one acknowledged row that is not yet in the \
         catalog (so recovery is what is being tested) or was taken at a pause hook; distinct by hash of (execution, image label)",
    );
    out.assume("WAL sync mode EveryWrite; a crash preserves exactly the bytes written to the WAL directory and the object store at that instant");
    out.assume("S3-style PUT atomicity (no partial objects); InMemory conditional PUT trusted");
    let root = util::scratch_dir("c01");
    let executions: u64 = if ctx.thorough { 14 * 12 } else { 64 };
    for idx in ctx.my_cases(executions) {
        let mut rng = ctx.rng("C01", idx);
        if ctx.thorough {
            // fault enumeration: baseline run to learn the number of requests, then fail each in turn
            let base_plan = gen_plan(&mut rng.clone(), idx, None);
            let mut p0 = base_plan.clone();
            p0.faults.clear();
            let n = one_execution(ctx, &mut out, p0, rng.fork(1), idx, "base", &root);
            let stride = 1 + n / 16; // at most ~24 positions x 2 modes per execution
            let mut k = idx % stride;
            while k < n {
                for m in [FaultMode::Before, FaultMode::After] {
                    let mut p = base_plan.clone();
                    p.faults = vec![Fault { actor: None, index: k, mode: m }];
                    one_execution(ctx, &mut out, p, rng.fork(1), idx, &format!("fault{}{:?}", k, m), &root);
                }
                k += stride;
            }
        } else {
            let plan = gen_plan(&mut rng, idx, None);
            one_execution(ctx, &mut out, plan, rng.fork(1), idx, "rand", &root);
        }
    }
    util::remove_dir(&root);
    clock::unfreeze_wall();
    // buffer-model lane (see c06.rs): every buffered batch keeps the WAL sequence number it was appended with
    let histories: u64 = if ctx.thorough { 14 * 20_000 } else { 8_000 };
    for idx in ctx.my_cases(histories) {
        let mut brng = ctx.rng("C01-buffer", idx);
        crate::checks::c06::buffer_history(ctx, &mut out, &mut brng, idx, "C01");
    }
    out
}

/// Runs one execution, checks its images; returns the number of store/catalog requests it made.
fn one_execution(ctx: &Ctx, out: &mut Outcome, plan: Plan, mut rng: Rng, idx: u64, tag: &str, root: &str) -> u64 {
    let exec_root = format!("{}/e{}-{}", root, idx, tag);
    std::fs::create_dir_all(&exec_root).unwrap();
    SEGMENT_LIMIT.store(plan.seg, std::sync::atomic::Ordering::Relaxed);
    let wal_dir = format!("{}/wal", exec_root);
    std::fs::create_dir_all(&wal_dir).unwrap();
    let plan2 = plan.clone();
    let sched_rng = rng.fork(2);
    let exec_root2 = exec_root.clone();
    let wal_dir2 = wal_dir.clone();
    let (images, decisions, nreq, hung, events_brief, setup_err) = sim::run_sim(async move {
        clock::freeze_wall(clock::SIM_EPOCH_NS);
        let ctl = Ctl::new();
        ctl.set_hooks(true);
        let local = Arc::new(LocalMetadataClient::new());
        let meta: Arc<dyn MetadataClient> = if plan2.local_backend {
            RecMeta::new(local.clone(), ctl.clone(), "ing")
        } else {
            Arc::new(ObjectStoreMetadataClient::new(ctl.store("ing"), ObjectStoreMetadataConfig::default()))
        };
        if plan2.dual_write {
            // both shards the plan's metrics map to are put into the dual-write phase (set up before
            // gating and faults start)
            for metric in ["m0", "m1"] {
                let key = cardinalsin::sharding::ShardKey::new(0, metric, clock::SIM_EPOCH_NS);
                let shard_id = format!("shard-{:x}", u64::from_be_bytes(key.to_bytes()[0..8].try_into().unwrap_or([0u8; 8])));
                let sp = (clock::SIM_EPOCH_NS - 1_500_000_000_000).to_be_bytes().to_vec();
                let r1 = meta.start_split(&shard_id, vec![format!("new-a-{}", metric), format!("new-b-{}", metric)], sp).await;
                let r2 = meta.update_split_progress(&shard_id, 0.2, cardinalsin::sharding::SplitPhase::DualWrite).await;
                if let Err(e) = r1.and(r2) {
                    return (vec![], String::new(), 0, false, vec![], Some(format!("start_split: {e}")));
                }
            }
        }
        let mut ing = Ingester::new(ingester_config(&wal_dir2, plan2.flush_rows, 50), ctl.store("ing"), meta, storage_config(), MetricSchema::default_metrics());
        if let Err(e) = ing.ensure_wal().await {
            return (vec![], String::new(), 0, false, vec![], Some(e.to_string()));
        }
        let ing = Arc::new(ing);
        ctl.reset_counters();
        ctl.set_faults(plan2.faults.clone());
        ctl.set_contention(plan2.contention.map(|(from, count)| sim::Contention { path_contains: "catalog.json".into(), from, count }));
        ctl.set_gating(true);
        let mut writers = vec![];
        for (w, batches) in plan2.writers.iter().cloned().enumerate() {
            let ing = ing.clone();
            let ctl2 = ctl.clone();
            let actor = format!("w{}", w);
            let actor2 = actor.clone();
            writers.push(sim::spawn_actor(&actor, async move {
                for (kind, rows, think) in batches {
                    tokio::time::sleep(Duration::from_millis(think)).await;
                    let ids: Vec<String> = rows.iter().map(|r| r.id.to_string()).collect();
                    let b = rows::make_batch(kind, &rows);
                    let r = ing.write(b).await;
                    ctl2.mark(&actor2, if r.is_ok() { "ACK" } else { "NACK" }, &ids.join(","), &r.err().map(|e| e.to_string()).unwrap_or_default());
                }
            }));
        }
        let ing2 = ing.clone();
        let timer = sim::spawn_actor("timer", async move { ing2.run_flush_timer().await });
        let mut sched = Scheduler::new(sched_rng, plan2.strategy.clone());
        let mut images: Vec<Image> = vec![];
        let mut counter = 0u64;
        let mut cancelled = false;
        let mut hung = false;
        let acked_now = |ctl: &Ctl| -> BTreeSet<i64> {
            ctl.events()
                .iter()
                .filter(|e| e.op == "ACK")
                .flat_map(|e| e.path.split(',').filter_map(|s| s.parse::<i64>().ok()).collect::<Vec<_>>())
                .collect()
        };
        loop {
            if !cancelled && writers.iter().all(|h| h.is_finished()) {
                ing.shutdown_token().cancel();
                cancelled = true;
            }
            if cancelled && timer.is_finished() {
                break;
            }
            let st = sched.step(&ctl).await;
            if let Step::Released(p) = st {
                if p.op != "GET" {
                    // let the released step run until everyone is blocked again, then image
                    sim::barrier().await;
                    let d = snapshot_wal(&wal_dir2, &exec_root2, &mut counter);
                    let label = format!("{}@{}:{}", if plan2.local_backend { "local" } else { "s3" }, p.op, p.path.chars().rev().take(28).collect::<String>().chars().rev().collect::<String>());
                    let lc = if plan2.local_backend { local_catalog_of(&local).await } else { vec![] };
                    images.push(Image { label: label.clone(), store: Arc::new(ctl.backing.fork()), wal_dir: d, local_catalog: lc.clone(), acked: acked_now(&ctl), depth: 0 });
                    if counter % 3 == 0 {
                        // the same instant as a power failure: unsynced WAL bytes are gone
                        let d2 = powerloss_wal(&wal_dir2, &exec_root2, &mut counter);
                        images.push(Image { label: format!("{}+powerloss", label), store: Arc::new(ctl.backing.fork()), wal_dir: d2, local_catalog: lc, acked: acked_now(&ctl), depth: 0 });
                    }
                }
            }
            if sched.steps > 20_000 {
                hung = true;
                break;
            }
        }
        ctl.set_gating(false);
        ctl.set_contention(None);
        // end state (no crash): also an image
        let d = snapshot_wal(&wal_dir2, &exec_root2, &mut counter);
        images.push(Image {
            label: format!("{}@END", if plan2.local_backend { "local" } else { "s3" }),
            store: Arc::new(ctl.backing.fork()),
            wal_dir: d,
            local_catalog: if plan2.local_backend { local_catalog_of(&local).await } else { vec![] },
            acked: acked_now(&ctl),
            depth: 0,
        });
        let brief: Vec<Value> = ctl
            .events()
            .iter()
            .filter(|e| !(e.op == "GET" && !e.result.starts_with("injected")))
            .map(|e| e.brief())
            .collect();
        (images, sched.decisions.clone(), ctl.request_count(None), hung, brief, None)
    });
    if let Some(e) = setup_err {
        out.inconclusive(&format!("execution {idx}: initial ensure_wal failed: {e}"));
        return 0;
    }
    if hung {
        out.inconclusive(&format!("execution {idx}/{tag} did not finish within 20000 steps"));
        let _ = std::fs::remove_dir_all(&exec_root);
        return nreq;
    }
    out.count("executions", 1);
    if plan.dual_write {
        out.count("executions_in_dual_write_phase", 1);
        out.count("dual_write_copies_uploaded", events_brief.iter().filter(|e| e["op"] == "PUT" && e["phase"] == "return" && e["path"].as_str().map(|p| p.contains("shard=new-")).unwrap_or(false)).count() as u64);
    }
    out.count("lost_cas_races_injected", events_brief.iter().filter(|e| e["actor"] == "contender" && e["phase"] == "return").count() as u64);
    out.count("writes_refused_with_retry_exhaustion", events_brief.iter().filter(|e| e["result"].as_str().map(|s| s.to_lowercase().contains("retries")).unwrap_or(false)).count() as u64);
    if plan.contention.map(|(_, c)| c >= 5).unwrap_or(false) && !plan.local_backend {
        out.count("executions_with_a_retry_exhausting_burst", 1);
    }
    out.count("store_and_catalog_requests", nreq);
    out.count("injected_faults_planned", plan.faults.len() as u64);
    let injected = events_brief.iter().filter(|e| e["result"].as_str().map(|s| s.starts_with("injected")).unwrap_or(false)).count() as u64;
    out.count("injected_faults_hit", injected);
    out.count("pause_hooks_hit", events_brief.iter().filter(|e| e["op"] == "HOOK" && e["phase"] == "return").count() as u64);

    // ---- check the images
    let mut counter = 1_000_000u64;
    let mut queue: Vec<Image> = images;
    // torn-tail variants of a sample of images
    let mut extra = vec![];
    for (i, img) in queue.iter().enumerate() {
        if rng.chance(1, if ctx.thorough { 4 } else { 8 }) {
            if let Some(t) = torn_variant(img, &mut rng, &exec_root, &mut counter, i) {
                extra.push(t);
            }
        }
    }
    out.count("torn_tail_images", extra.len() as u64);
    queue.extend(extra);
    let plan_json = json!({
        "backend": if plan.local_backend { "local" } else { "object-store" },
        "flush_row_count": plan.flush_rows,
        "dual_write": plan.dual_write,
        "wal_segment_limit": plan.seg,
        "lost_cas_races_on_catalog": plan.contention.map(|(f, c)| format!("conditional PUTs #{}..#{}", f, f + c)),
        "writers": plan.writers.iter().map(|w| w.iter().map(|(k, r, t)| format!("{:?} ids {:?} after {}ms", k, r.iter().map(|x| x.id).collect::<Vec<_>>(), t)).collect::<Vec<_>>()).collect::<Vec<_>>(),
        "faults": plan.faults.iter().map(|f| format!("request #{} {:?}", f.index, f.mode)).collect::<Vec<_>>(),
    });
    let mut qi = 0;
    while qi < queue.len() {
        let img = queue[qi].clone();
        qi += 1;
        let gated = if img.depth < 2 && rng.chance(1, if ctx.thorough { 6 } else { 12 }) { Some(rng.fork(qi as u64)) } else { None };
        let was_gated = gated.is_some();
        let res = boot(&img, gated, &exec_root, &mut counter);
        out.eval();
        out.count("crash_images_booted", 1);
        if img.depth > 0 {
            out.count("crash_restart_crash_images", 1);
        }
        if img.label.contains("+powerloss") {
            out.count("power_loss_images", 1);
        }
        if was_gated {
            out.count("gated_recoveries", 1);
            out.count("gated_recovery_steps", res.steps);
        }
        let have: BTreeSet<i64> = res.catalog_ids.iter().cloned().collect();
        let missing: Vec<i64> = img.acked.iter().filter(|i| !have.contains(i)).cloned().collect();
        let at_hook = img.label.contains("HOOK");
        if res.recovered_rows > 0 || at_hook || img.depth > 0 {
            out.nontrivial(hash_str(&format!("{}|{}|{}|{}", idx, tag, qi, img.label)));
        }
        if res.recovered_rows > 0 {
            out.count("images_with_recovered_rows", 1);
        }
        let witness = || {
            json!({"execution_index": idx, "variant": tag, "seed": ctx.seed, "plan": plan_json, "decisions": decisions,
                "image": img.label, "acked": img.acked.len(), "missing_ids": missing, "recovered_buffer_rows": res.recovered_rows,
                "ensure_wal_error": res.ensure_err, "events": events_brief})
        };
        if let Some(e) = &res.ensure_err {
            out.violation("C01/recovery-failed", &format!("ensure_wal failed on crash image {}: {}", img.label, e), witness());
        }
        if !res.read_errors.is_empty() {
            out.violation("C01/catalog-lists-unreadable-chunk", &res.read_errors.join("; "), witness());
        }
        if !missing.is_empty() {
            let injected_any = injected > 0;
            let sig = if img.label.contains("+powerloss") && !img.label.contains("torn") {
                "C01/acked-row-lost/power-loss-image(unsynced-wal-bytes)"
            } else if img.label.contains("torn") {
                "C01/acked-row-lost/torn-tail"
            } else if injected_any {
                "C01/acked-row-lost/after-injected-fault"
            } else {
                "C01/acked-row-lost/fault-free"
            };
            out.violation(
                sig,
                &format!("{} acknowledged row(s) {:?} are neither in the catalog nor recovered from crash image {}", missing.len(), missing.iter().take(6).collect::<Vec<_>>(), img.label),
                witness(),
            );
        }
        queue.extend(res.sub_images);
    }
    if idx % 16 == 0 && tag != "base" {
        out.sample(json!({"execution_index": idx, "variant": tag, "plan": plan_json, "images_checked": queue.len(),
            "image_labels": queue.iter().take(12).map(|i| i.label.clone()).collect::<Vec<_>>()}));
    }
    let _ = std::fs::remove_dir_all(&exec_root);
    nreq
}

/// Torn WAL tail with the real encoder: append one more (never acknowledged) batch to the
/// image's WAL, then cut the active segment inside that entry.
fn torn_variant(img: &Image, rng: &mut Rng, root: &str, counter: &mut u64, i: usize) -> Option<Image> {
    *counter += 1;
    let d = format!("{}/torn{}", root, counter);
    util::copy_dir(&img.wal_dir, &d).ok()?;
    let before: u64 = seg_sizes(&d).iter().map(|x| x.1).sum();
    let rt = tokio::runtime::Builder::new_current_thread().enable_all().build().ok()?;
    let d2 = d.clone();
    let ok = rt.block_on(async move {
        let cfg = WalConfig { wal_dir: PathBuf::from(&d2), max_segment_size: SEGMENT_LIMIT.load(std::sync::atomic::Ordering::Relaxed), sync_mode: WalSyncMode::EveryWrite, enabled: true };
        let mut w = WriteAheadLog::open(cfg).await.ok()?;
        let b = rows::make_batch(SchemaKind::A, &[RowSpec { id: -1 - i as i64, ts: 1, metric: "torn".into(), host: None, value: 0.0 }]);
        w.append(&b).await.ok()
    });
    ok?;
    let segs = seg_sizes(&d);
    let after: u64 = segs.iter().map(|x| x.1).sum();
    let (active, alen) = segs.last()?.clone();
    let entry = after.saturating_sub(before);
    if entry == 0 || alen == 0 {
        return None;
    }
    let cut = 1 + rng.below(entry.min(alen) - 1);
    let f = std::fs::OpenOptions::new().write(true).open(&active).ok()?;
    f.set_len(alen - cut).ok()?;
    let mut t = img.clone();
    t.wal_dir = d;
    t.label = format!("{}+torn(-{}B)", img.label, cut);
    Some(t)
}

fn seg_sizes(dir: &str) -> Vec<(String, u64)> {
    let mut v: Vec<(String, u64)> = std::fs::read_dir(dir)
        .map(|rd| {
            rd.filter_map(|e| e.ok())
                .filter(|e| e.file_name().to_string_lossy().starts_with("segment-"))
                .map(|e| (e.path().to_string_lossy().to_string(), e.metadata().map(|m| m.len()).unwrap_or(0)))
                .collect()
        })
        .unwrap_or_default();
    v.sort();
    v
}
