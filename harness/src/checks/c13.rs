//! C13 — shard metadata changes are fenced by generation.
//!
//! Lane SIM (object-store backend): 2–4 nodes race updates and creations of
//! one or two shards at object-store-request granularity; the monitor walks
//! every committed version of `shards/<id>.json` (generation chain, based-on
//! generation, one creation) and matches them with the client-side results.
//! Lane STRESS (in-memory backend and ShardRouter): real threads, a
//! rendezvous at the sync hooks widens the check-then-insert window.

use crate::checks::c02::{committed_puts, op_records};
use crate::outcome::Outcome;
use crate::rng::{hash_str, Rng};
use crate::sim::{self, Ctl, Scheduler, Strategy};
use crate::Ctx;
use cardinalsin::metadata::{LocalMetadataClient, MetadataClient, ObjectStoreMetadataClient, ObjectStoreMetadataConfig};
use cardinalsin::sharding::{ShardMetadata, ShardRouter, ShardState};
use serde_json::json;
use std::sync::atomic::{AtomicU64, Ordering};
use std::sync::Arc;

fn meta(id: &str, state: u8, tag: i64) -> ShardMetadata {
    ShardMetadata {
        shard_id: id.to_string().into(),
        generation: 999, // must be ignored by the store: it writes expected+1
        key_range: (vec![0], vec![255]),
        replicas: vec![],
        state: match state % 3 {
            0 => ShardState::Active,
            1 => ShardState::Splitting { new_shards: vec!["x".to_string().into(), "y".to_string().into()] },
            _ => ShardState::PendingDeletion { delete_after: 5 },
        },
        min_time: tag, // unique tag: identifies which update a stored version came from
        max_time: tag + 1,
    }
}

#[derive(Clone, Debug)]
enum Plan {
    /// read the shard first, then update based on what was read
    ReadThenUpdate(String, u8),
    /// update with a guessed / stale expected generation
    Blind(String, u64, u8),
}

pub fn run(ctx: &Ctx) -> Outcome {
    let mut out = Outcome::new(
        "C13",
        "SIM case = one seeded schedule of 2-4 nodes x 2-5 shard-metadata updates / creations on 1-2 shards (object-store backend), \
         every committed version of the shard object checked; non-trivial = at least two updates based on the same generation were in \
         flight together (a rejection or CAS conflict was observed), distinct by decision string. STRESS case = one round of k threads \
         issuing the same-generation update (in-memory backend) or crossing router updates, with a rendezvous at the sync hook",
    );
    out.assume("object_store::memory::InMemory implements conditional PUT atomically");
    out.assume("STRESS lane: real threads on a multi-thread runtime; the rendezvous only widens a window pre-emption could open");
    let schedules: u64 = if ctx.thorough { 14 * 100_000 } else { 40_000 };
    for idx in ctx.my_cases(schedules) {
        let mut rng = ctx.rng("C13", idx);
        sim_case(ctx, &mut out, &mut rng, idx);
    }
    stress(ctx, &mut out);
    let histories: u64 = if ctx.thorough { 14 * 40_000 } else { 16_000 };
    for idx in ctx.my_cases(histories) {
        let mut rng = ctx.rng("C13-router", idx);
        router_history(ctx, &mut out, &mut rng, idx);
    }
    out
}

/// Lane ROUTER-MODEL: one router, sequential histories of routing updates in every shard state
/// (active / splitting / pending deletion), invalidations and TTL expiry (the interposed monotonic
/// clock jumps), against a three-line model: an update is taken unless an entry with a larger
/// generation is cached - whatever that entry's state or age. Observed through `get_shard`, which
/// must never hand out a generation below the newest one the router has been told about (and not
/// invalidated since).
fn router_history(ctx: &Ctx, out: &mut Outcome, rng: &mut Rng, idx: u64) {
    const TTL_S: u64 = 600;
    let router = ShardRouter::new(std::time::Duration::from_secs(TTL_S));
    let key = cardinalsin::sharding::ShardKey::new(0, "m", 0);
    // model: (generation, state code, age in seconds since cached)
    let mut cached: Option<(u64, u8, u64)> = None;
    let mut trace: Vec<String> = vec![];
    let n = 3 + rng.usize(8);
    let mut saw_refusal_of_nonroutable = false;
    for _ in 0..n {
        match rng.below(10) {
            0 => {
                router.invalidate(&"r".to_string().into());
                cached = None;
                trace.push("invalidate".into());
            }
            1 | 2 => {
                let d = *rng.pick(&[1u64, 300, 599, 601, 700, 5000]);
                crate::clock::advance_mono(d as i64 * 1_000_000_000);
                if let Some(c) = cached.as_mut() {
                    c.2 += d;
                }
                trace.push(format!("+{}s", d));
            }
            _ => {
                let g = 1 + rng.below(5);
                let st = rng.below(3) as u8;
                let mut m = meta("r", st, g as i64);
                m.generation = g;
                m.key_range = (vec![], vec![255u8; 16]);
                router.update_routing(m);
                let taken = match cached {
                    Some((cg, _, _)) => g >= cg,
                    None => true,
                };
                if !taken {
                    if let Some((_, cst, age)) = cached {
                        if cst != 0 || age > TTL_S {
                            saw_refusal_of_nonroutable = true;
                        }
                    }
                }
                if taken {
                    cached = Some((g, st, 0));
                }
                trace.push(format!("update(gen {}, {})", g, ["active", "splitting", "pending-deletion"][st as usize]));
            }
        }
        out.eval();
        // the margin around the TTL: ages within 2 s of it are not judged (real time also passes)
        let near_ttl = cached.map(|c| c.2 + 2 >= TTL_S && c.2 <= TTL_S + 2).unwrap_or(false);
        let expect: Option<u64> = match cached {
            Some((g, 0, age)) if age <= TTL_S => Some(g),
            _ => None,
        };
        let got = router.get_shard(&key).map(|s| s.generation);
        if !near_ttl && got != expect {
            let newest = cached.map(|c| c.0);
            let older = matches!((got, newest), (Some(g), Some(n)) if g < n);
            if !older {
                // anything else (an entry withheld or handed out although the model would not) is not what C13 is
                // about - the property fences generations: an observation
                out.count("router_model.lookups_differing_from_the_model_without_a_generation_regression", 1);
                continue;
            }
            out.violation(
                "C13/router/older-generation-replaced-newer",
                &format!("after {:?} the router answers generation {:?}; the newest generation it was told (and has not invalidated) is {:?}, a lookup should give {:?}", trace, got, newest, expect),
                json!({"lane": "router-model", "history": idx, "seed": ctx.seed, "trace": trace}),
            );
            return;
        }
    }
    out.count("router_model.histories", 1);
    if saw_refusal_of_nonroutable {
        out.count("router_model.older_update_offered_to_a_splitting_or_expired_entry", 1);
        out.nontrivial(hash_str(&format!("router|{:?}", trace)));
    }
}

fn sim_case(ctx: &Ctx, out: &mut Outcome, rng: &mut Rng, idx: u64) {
    let nnodes = 2 + rng.usize(3);
    let shards: Vec<String> = if rng.chance(1, 3) { vec!["shard-a".into(), "shard-b".into()] } else { vec!["shard-a".into()] };
    let pre_existing = rng.chance(1, 2);
    let plans: Vec<Vec<Plan>> = (0..nnodes)
        .map(|_| {
            let n = 2 + rng.usize(4);
            (0..n)
                .map(|_| {
                    let s = rng.pick(&shards).clone();
                    if rng.chance(1, 2) {
                        Plan::ReadThenUpdate(s, rng.below(3) as u8)
                    } else {
                        Plan::Blind(s, rng.below(4), rng.below(3) as u8)
                    }
                })
                .collect()
        })
        .collect();
    let strategy = match rng.below(10) {
        0..=5 => Strategy::Uniform,
        6..=8 => Strategy::Pct { change_points: (0..2).map(|_| rng.below(40)).collect() },
        _ => Strategy::Starve { victim: format!("n{}", rng.usize(nnodes)) },
    };
    let sched_rng = rng.fork(3);
    let plans2 = plans.clone();
    let shards2 = shards.clone();
    let (events, decisions, hung) = sim::run_sim(async move {
        let ctl = Ctl::new();
        if pre_existing {
            let c = ObjectStoreMetadataClient::new(ctl.store("init"), ObjectStoreMetadataConfig::default());
            for s in &shards2 {
                let _ = c.update_shard_metadata(s, &meta(s, 0, -1), 0).await;
            }
        }
        let start = ctl.events_len();
        ctl.set_gating(true);
        let tagc = Arc::new(AtomicU64::new(1));
        let mut handles = vec![];
        for (a, plan) in plans2.into_iter().enumerate() {
            let actor = format!("n{}", a);
            let client = ObjectStoreMetadataClient::new(ctl.store(&actor), ObjectStoreMetadataConfig::default());
            let ctl2 = ctl.clone();
            let actor2 = actor.clone();
            let tagc = tagc.clone();
            handles.push(sim::spawn_actor(&actor, async move {
                for p in plan {
                    let (shard, expected, st) = match p {
                        Plan::ReadThenUpdate(s, st) => {
                            let g = match client.get_shard_metadata(&s).await {
                                Ok(Some(m)) => m.generation,
                                _ => 0,
                            };
                            (s, g, st)
                        }
                        Plan::Blind(s, g, st) => (s, g, st),
                    };
                    let tag = tagc.fetch_add(1, Ordering::Relaxed) as i64;
                    let desc = format!("update|{}|{}|{}", shard, expected, tag);
                    ctl2.mark(&actor2, "OPCALL", &desc, "");
                    let r = client.update_shard_metadata(&shard, &meta(&shard, st, tag), expected).await;
                    ctl2.mark(&actor2, "OPRET", &desc, &match r {
                        Ok(()) => "ok".to_string(),
                        Err(e) => format!("{:?}", e),
                    });
                }
            }));
        }
        let mut sched = Scheduler::new(sched_rng, strategy);
        let mut hung = false;
        while !handles.iter().all(|h| h.is_finished()) {
            sched.step(&ctl).await;
            if sched.steps > 20_000 {
                hung = true;
                break;
            }
        }
        ctl.set_gating(false);
        (ctl.events_from(start), sched.decisions.clone(), hung)
    });
    out.eval();
    if hung {
        out.inconclusive(&format!("schedule {} did not finish", idx));
        return;
    }
    let ops = op_records(&events);
    let witness = || {
        json!({"schedule_index": idx, "seed": ctx.seed, "decisions": decisions, "pre_existing": pre_existing,
            "plans": plans.iter().map(|p| p.iter().map(|o| format!("{:?}", o)).collect::<Vec<_>>()).collect::<Vec<_>>(),
            "events": events.iter().map(|e| e.brief()).collect::<Vec<_>>()})
    };
    let rejected = ops.iter().filter(|o| !o.ok).count();
    let conflicts = events.iter().filter(|e| !e.call && e.op == "PUT" && (e.result == "precondition" || e.result == "exists")).count();
    out.count("sim.updates", ops.len() as u64);
    out.count("sim.rejected", rejected as u64);
    out.count("sim.cas_conflicts", conflicts as u64);
    if conflicts > 0 || rejected > 0 {
        out.nontrivial(hash_str(&decisions));
    }
    let mut used = vec![false; ops.len()];
    for shard in &shards {
        let suffix = format!("{}.json", shard);
        let puts = committed_puts(&events, &suffix);
        out.count("sim.shard_versions_checked", puts.len() as u64);
        let mut stored: u64 = if pre_existing { 1 } else { 0 };
        let mut creations = 0;
        for (seq, actor, payload, mode, _etag) in &puts {
            let v: ShardMetadata = match serde_json::from_slice(payload) {
                Ok(v) => v,
                Err(e) => {
                    out.violation("C13/unparsable-version", &e.to_string(), witness());
                    continue;
                }
            };
            if mode == "create" {
                creations += 1;
            }
            if v.generation != stored + 1 {
                out.violation(
                    "C13/generation-not-plus-one",
                    &format!("shard {} version moved generation {} -> {}", shard, stored, v.generation),
                    witness(),
                );
            }
            // the client operation that committed it
            match ops.iter().enumerate().find(|(_, o)| o.actor == *actor && o.call_seq < *seq && *seq < o.ret_seq) {
                Some((oi, op)) => {
                    let f: Vec<&str> = op.desc.split('|').collect();
                    let expected: u64 = f[2].parse().unwrap_or(u64::MAX);
                    let tag: i64 = f[3].parse().unwrap_or(-2);
                    if used[oi] {
                        out.violation("C13/update-committed-twice", &op.desc, witness());
                    }
                    used[oi] = true;
                    if !op.ok {
                        out.violation(
                            "C13/failed-update-has-effect",
                            &format!("{} reported {} but a version was committed", op.desc, op.err),
                            witness(),
                        );
                    }
                    if expected != stored {
                        out.violation(
                            "C13/stale-update-succeeded",
                            &format!("update based on generation {} committed over stored generation {}", expected, stored),
                            witness(),
                        );
                    }
                    if v.min_time != tag {
                        out.violation("C13/version-content-from-other-update", &op.desc, witness());
                    }
                }
                None => out.violation("C13/put-outside-any-operation", shard, witness()),
            }
            stored = v.generation;
        }
        if creations > 1 || (pre_existing && creations > 0) {
            out.violation("C13/two-creations", &format!("shard {} was created {} times", shard, creations), witness());
        }
    }
    for (oi, op) in ops.iter().enumerate() {
        if op.ok && !used[oi] {
            out.violation("C13/success-without-commit", &op.desc, witness());
        }
        if !op.ok && !(op.err.contains("StaleGeneration") || op.err.contains("ShardNotFound") || op.err.contains("TooManyRetries")) {
            out.violation("C13/unexpected-failure", &format!("{}: {}", op.desc, op.err), witness());
        }
    }
    if idx < 2 {
        out.sample(json!({"lane": "sim", "schedule_index": idx, "decisions": decisions,
            "plans": plans.iter().map(|p| p.iter().map(|o| format!("{:?}", o)).collect::<Vec<_>>()).collect::<Vec<_>>(),
            "results": ops.iter().map(|o| format!("{} {} -> {}", o.actor, o.desc, o.err)).collect::<Vec<_>>()}));
    }
}

static ARRIVALS: AtomicU64 = AtomicU64::new(0);

fn install_rendezvous() {
    cardinalsin::verif_hooks::set_sync(Some(Arc::new(|_name: &'static str| {
        // wait until a second thread is inside the window too (or ~150 us)
        let me = ARRIVALS.fetch_add(1, Ordering::AcqRel) + 1;
        let target = (me + 1) & !1; // next even number
        let t0 = crate::clock::real_mono_ns();
        while ARRIVALS.load(Ordering::Acquire) < target && crate::clock::real_mono_ns() - t0 < 60_000 {
            std::hint::spin_loop();
        }
    })));
}

fn stress(ctx: &Ctx, out: &mut Outcome) {
    let rounds: u64 = if ctx.thorough { 14 * 30_000 } else { 6_000 };
    let my = ctx.my_cases(rounds);
    if my.is_empty() {
        return;
    }
    install_rendezvous();
    let rt = tokio::runtime::Builder::new_multi_thread().worker_threads(8).enable_all().build().unwrap();
    rt.block_on(async {
        for idx in my {
            let mut rng = ctx.rng("C13-stress", idx);
            // ---- in-memory backend: k same-generation updates (or creations) in parallel
            let client = Arc::new(LocalMetadataClient::new());
            let base: u64 = rng.below(3);
            for g in 0..base {
                let _ = client.update_shard_metadata("s", &meta("s", 0, -1), g).await;
            }
            let k = 2 + rng.usize(5);
            let mut hs = vec![];
            for t in 0..k {
                let c = client.clone();
                hs.push(tokio::spawn(async move { c.update_shard_metadata("s", &meta("s", 1, 1000 + t as i64), base).await.is_ok() }));
            }
            let mut ok = 0;
            for h in hs {
                if h.await.unwrap_or(false) {
                    ok += 1;
                }
            }
            out.eval();
            out.count("stress.local.rounds", 1);
            let stored = client.get_shard_metadata("s").await.ok().flatten().map(|m| m.generation).unwrap_or(0);
            if ok > 1 {
                out.nontrivial(hash_str(&format!("local-{}", idx)));
                out.violation(
                    if base == 0 { "C13/local/two-creations" } else { "C13/local/two-successes-on-one-generation" },
                    &format!("{} of {} concurrent updates based on generation {} succeeded (in-memory backend)", ok, k, base),
                    json!({"lane": "stress", "round": idx, "seed": ctx.seed, "threads": k, "based_on": base, "successes": ok, "stored_generation": stored}),
                );
            } else if ok == 1 {
                out.nontrivial(hash_str(&format!("local-{}", idx)));
                if stored != base + 1 {
                    out.violation(
                        "C13/local/generation-not-plus-one",
                        &format!("stored generation {} after one success on {}", stored, base),
                        json!({"lane": "stress", "round": idx}),
                    );
                }
            } else {
                out.violation("C13/local/no-success", "no update succeeded although the generation matched", json!({"round": idx}));
            }
            // ---- router: crossing updates with different generations; the cached generation must not decrease
            let router = Arc::new(ShardRouter::new(std::time::Duration::from_secs(600)));
            let mut m0 = meta("r", 0, 0);
            m0.generation = 1;
            m0.key_range = (vec![], vec![255u8; 16]);
            router.update_routing(m0.clone());
            let gens: Vec<u64> = (0..k).map(|_| 2 + rng.below(6)).collect();
            let maxg = *gens.iter().max().unwrap();
            let mut hs = vec![];
            for g in gens.clone() {
                let r = router.clone();
                let mut m = m0.clone();
                m.generation = g;
                hs.push(tokio::task::spawn_blocking(move || r.update_routing(m)));
            }
            for h in hs {
                let _ = h.await;
            }
            out.eval();
            out.count("stress.router.rounds", 1);
            let key = cardinalsin::sharding::ShardKey::new(0, "m", 0);
            // all updates have returned: the entry must hold the largest generation offered
            let got = router.get_shard(&key).map(|s| s.generation);
            match got {
                Some(g) if g == maxg => {}
                Some(g) => out.violation(
                    "C13/router/older-generation-replaced-newer",
                    &format!("after concurrent updates {:?} the router caches generation {} (newest offered {})", gens, g, maxg),
                    json!({"lane": "stress", "round": idx, "seed": ctx.seed, "offered": gens, "cached": g}),
                ),
                None => {
                    out.count("stress.router.key_not_in_range", 1);
                }
            }
        }
    });
    cardinalsin::verif_hooks::set_sync(None);
}
