//! C10 — concurrent queries do not affect each other's results.
//!
//! SIM: one QueryNode, 2–3 queries whose time windows select different chunk
//! sets (plus, sometimes, a streaming query's historical phase) run as
//! concurrent tasks; the feature-gated pause point between table registration
//! and statement execution is the only gate, so the scheduler decides in which
//! order the queries continue after having registered their chunk sets (all
//! orders for 2 queries, seeded for 3). STRESS: many queries on real threads
//! without any hook. Oracle: every answer must equal the answer of the same
//! query run alone on the same data (which itself equals the SQL oracle over the
//! ingested rows).

use crate::checks::c01::storage_config;
use crate::outcome::Outcome;
use crate::rng::{hash_str, Rng};
use crate::rows::{self, RowSpec, SchemaKind};
use crate::sim::{self, Ctl, Scheduler, Strategy};
use crate::Ctx;
use arrow_array::RecordBatch;
use cardinalsin::ingester::Ingester;
use cardinalsin::metadata::{LocalMetadataClient, MetadataClient};
use cardinalsin::query::QueryNode;
use cardinalsin::schema::MetricSchema;
use datafusion::prelude::SessionContext;
use object_store::memory::InMemory;
use serde_json::json;
use std::sync::Arc;

const H: i64 = 3_600_000_000_000;

async fn oracle(all_rows: &[RowSpec], sql: &str) -> Result<Vec<String>, String> {
    let ctx = SessionContext::new();
    let b = rows::make_batch(SchemaKind::B, all_rows);
    let mt = datafusion::datasource::MemTable::try_new(b.schema(), vec![vec![b]]).map_err(|e| e.to_string())?;
    ctx.register_table("metrics", Arc::new(mt)).map_err(|e| e.to_string())?;
    let out: Vec<RecordBatch> = ctx.sql(sql).await.map_err(|e| e.to_string())?.collect().await.map_err(|e| e.to_string())?;
    Ok(rows::canonical_rows(&out))
}

async fn dataset(rng: &mut Rng, first_id: i64, store: Arc<InMemory>, meta: Arc<LocalMetadataClient>) -> Result<(Vec<RowSpec>, i64), String> {
    let ing = Ingester::new(crate::checks::c03::no_wal_ingester_config(), store, meta, storage_config(), MetricSchema::default_metrics());
    let base = 1_700_000_000_000_000_000i64 / H * H;
    let mut all = vec![];
    let mut id = first_id;
    for hour in 0..4 {
        for _c in 0..1 + rng.usize(2) {
            let k = 1 + rng.usize(4);
            let rows_: Vec<RowSpec> = (0..k)
                .map(|_| {
                    id += 1;
                    RowSpec { id, ts: base + hour * H + rng.range(1, H - 2), metric: format!("m{}", rng.below(2)), host: Some(format!("h{}", rng.below(2))), value: id as f64 }
                })
                .collect();
            ing.write(rows::make_batch(SchemaKind::B, &rows_)).await.map_err(|e| e.to_string())?;
            all.extend(rows_);
        }
    }
    Ok((all, base))
}

fn gen_query(rng: &mut Rng, base: i64) -> String {
    let h0 = rng.range(0, 3);
    let h1 = h0 + rng.range(0, (3 - h0).min(1));
    let (lo, hi) = (base + h0 * H, base + (h1 + 1) * H - 1);
    match rng.below(4) {
        0 => format!("SELECT value_i64, host FROM metrics WHERE timestamp >= {} AND timestamp <= {}", lo, hi),
        1 => format!("SELECT count(*) AS n, sum(value_i64) AS s FROM metrics WHERE timestamp >= {} AND timestamp <= {}", lo, hi),
        2 => format!("SELECT host, count(*) AS n FROM metrics WHERE timestamp BETWEEN {} AND {} GROUP BY host", lo, hi),
        _ => format!("SELECT value_i64 FROM metrics WHERE timestamp >= {} AND timestamp <= {} AND metric_name = 'm0'", lo, hi),
    }
}

pub fn run(ctx: &Ctx) -> Outcome {
    let mut out = Outcome::new(
        "C10",
        "SIM case = one schedule of 2-3 concurrent queries (different windows / predicates, sometimes a streaming query's historical phase) released \
         from the pause point after table registration in a scheduler-chosen order; STRESS case = one round of 8-16 queries on real threads; non-trivial = \
         at least two of the concurrent queries selected different chunk sets (their windows differ), distinct by hash of (queries, release order)",
    );
    out.assume("the pause hook only adds a suspension point where the multi-threaded service can be pre-empted anyway (between releasing the registration lock and planning)");
    let cases: u64 = if ctx.thorough { 14 * 3000 } else { 1200 };
    for idx in ctx.my_cases(cases) {
        let mut rng = ctx.rng("C10", idx);
        sim_case(ctx, &mut out, &mut rng, idx);
    }
    stress(ctx, &mut out);
    out
}

fn sim_case(ctx: &Ctx, out: &mut Outcome, rng: &mut Rng, idx: u64) {
    let nq = 2 + rng.usize(2);
    let with_stream = rng.chance(1, 4);
    let mut drng = rng.fork(1);
    let mut qrng = rng.fork(2);
    let sched_rng = rng.fork(3);
    // for two queries enumerate both release orders across consecutive case indices, else seeded
    let forced_first: Option<usize> = if nq == 2 { Some((idx % 2) as usize) } else { None };
    // a third of the cases: one read of the query node fails during the concurrent phase. The failed query may
    // answer with an error - what no query may do is answer from another query's chunk set (an error path that
    // resolves the table name again would).
    let fault_at: Option<u64> = if rng.chance(1, 3) { Some(rng.below(30)) } else { None };
    let adaptive = rng.chance(1, 2);
    let res = sim::run_sim(async move {
        let store = Arc::new(InMemory::new());
        let ctl = Ctl::with_backing(store.clone());
        ctl.set_hooks(true);
        let meta = Arc::new(LocalMetadataClient::new());
        let (all, base) = dataset(&mut drng, idx as i64 * 10_000, store.clone(), meta.clone()).await?;
        let mut node = QueryNode::new(crate::checks::c09::query_config(), ctl.store("node"), meta.clone() as Arc<dyn MetadataClient>, storage_config()).await.map_err(|e| e.to_string())?;
        let (btx, _) = tokio::sync::broadcast::channel::<RecordBatch>(4);
        node.connect_broadcast(btx.subscribe());
        // half the nodes run with adaptive indexing attached (its own execution path: a second code path for the
        // same operation)
        if adaptive {
            node = node.with_adaptive_indexing(Arc::new(cardinalsin::adaptive_index::AdaptiveIndexController::new(cardinalsin::adaptive_index::AdaptiveIndexConfig::default())));
        }
        let node = Arc::new(node);
        let queries: Vec<String> = (0..nq).map(|_| gen_query(&mut qrng, base)).collect();
        // answers alone (sequential), before any concurrency
        let mut alone = vec![];
        for q in &queries {
            alone.push(node.query(q).await.map(|b| rows::canonical_rows(&b)).map_err(|e| e.to_string()));
        }
        let mut reference = vec![];
        for q in &queries {
            reference.push(oracle(&all, q).await);
        }
        // concurrent run, gated at the hook only
        ctl.set_gate_filter(Some(Arc::new(|p: &crate::sim::ParkedInfo| p.op == "HOOK" && p.path.starts_with("query.after_"))));
        ctl.reset_counters();
        if let Some(k) = fault_at {
            ctl.set_faults(vec![sim::Fault { actor: Some("node".into()), index: k, mode: sim::FaultMode::Before }]);
        }
        ctl.set_gating(true);
        let mut hs = vec![];
        for (i, q) in queries.iter().cloned().enumerate() {
            let node = node.clone();
            let streaming = with_stream && i == 0;
            hs.push(sim::spawn_actor(&format!("q{}", i), async move {
                if streaming {
                    // historical phase of a streaming query: collect what arrives until the stream idles
                    match node.query_stream(&q).await {
                        Ok(mut rx) => {
                            let mut got = vec![];
                            while let Ok(Some(Ok(b))) = tokio::time::timeout(std::time::Duration::from_millis(50), rx.recv()).await {
                                got.push(b);
                            }
                            Ok(rows::canonical_rows(&got))
                        }
                        Err(e) => Err(e.to_string()),
                    }
                } else {
                    node.query(&q).await.map(|b| rows::canonical_rows(&b)).map_err(|e| e.to_string())
                }
            }));
        }
        let mut sched = Scheduler::new(sched_rng, Strategy::Uniform);
        sched.tick_permille = 0;
        let mut order = vec![];
        let mut first = true;
        while !hs.iter().all(|h| h.is_finished()) {
            // wait until every query that can reach the hook is parked there
            sim::barrier().await;
            ctl.prune_parked();
            let parked = ctl.parked();
            if parked.is_empty() {
                tokio::time::sleep(std::time::Duration::from_millis(10)).await;
                sched.steps += 1;
                if sched.steps > 5000 {
                    return Err("concurrent queries did not finish".to_string());
                }
                continue;
            }
            let pick = if first && forced_first.is_some() {
                parked.iter().position(|p| p.actor == format!("q{}", forced_first.unwrap())).unwrap_or(0)
            } else {
                sched.choose(&parked)
            };
            first = false;
            order.push(parked[pick].actor.clone());
            ctl.release(parked[pick].req, sim::Release::Proceed);
        }
        ctl.set_gating(false);
        ctl.set_faults(vec![]);
        let fault_hit = ctl.events().iter().any(|e| e.result.starts_with("injected"));
        let mut concurrent = vec![];
        for h in hs {
            concurrent.push(h.await.map_err(|e| e.to_string())?);
        }
        Ok::<_, String>((queries, alone, reference, concurrent, order, with_stream, fault_hit))
    });
    out.eval();
    let (queries, alone, reference, concurrent, order, with_stream, fault_hit) = match res {
        Ok(x) => x,
        Err(e) => {
            out.inconclusive(&format!("case {idx}: {e}"));
            return;
        }
    };
    out.count("sim.schedules", 1);
    if adaptive {
        out.count("sim.schedules_on_a_node_with_adaptive_indexing", 1);
    }
    if fault_hit {
        out.count("sim.schedules_with_a_failed_read", 1);
    }
    out.count("sim.queries", queries.len() as u64);
    let distinct_windows: std::collections::BTreeSet<String> = queries.iter().map(|q| q.split("timestamp").nth(1).unwrap_or("").chars().take(60).collect()).collect();
    if distinct_windows.len() >= 2 {
        out.nontrivial(hash_str(&format!("{:?}|{:?}", queries, order)));
    }
    for i in 0..queries.len() {
        // sanity of the harness / C04 territory: alone must equal the oracle, otherwise this case says nothing about C10
        match (&alone[i], &reference[i]) {
            (Ok(a), Ok(r)) if a == r => {}
            _ => {
                out.count("sim.query_alone_differs_from_oracle", 1);
                continue;
            }
        }
        let a = alone[i].as_ref().unwrap();
        match &concurrent[i] {
            Ok(c) if c == a => {}
            Err(_) if fault_hit => {
                out.count("sim.queries_failed_by_the_injected_read_error", 1);
            }
            other => {
                let pos = order.iter().position(|o| *o == format!("q{}", i));
                let sig = if with_stream && i == 0 { "C10/streaming-historical-phase-evaluated-on-other-querys-chunks" } else { "C10/answer-differs-under-concurrency" };
                out.violation(
                    sig,
                    &format!("query {} returned {:?} under concurrency, {:?} alone", i, other.as_ref().map(|v| v.len()).map_err(|e| e.clone()), a.len()),
                    json!({"case_index": idx, "seed": ctx.seed, "queries": queries, "release_order_after_registration": order, "released_at_position": pos,
                        "answer_alone": a.iter().take(10).collect::<Vec<_>>(), "answer_concurrent": other.as_ref().map(|v| v.iter().take(10).cloned().collect::<Vec<_>>()).map_err(|e| e.clone())}),
                );
            }
        }
    }
    if idx < 3 {
        out.sample(json!({"case_index": idx, "queries": queries, "release_order_after_registration": order, "streaming_participant": with_stream}));
    }
}

fn stress(ctx: &Ctx, out: &mut Outcome) {
    let rounds: u64 = if ctx.thorough { 14 * 300 } else { 64 };
    let my = ctx.my_cases(rounds);
    if my.is_empty() {
        return;
    }
    crate::sim::Ctl::clear_current();
    let rt = tokio::runtime::Builder::new_multi_thread().worker_threads(8).enable_all().build().unwrap();
    rt.block_on(async {
        for idx in my {
            let mut rng = ctx.rng("C10-stress", idx);
            let store = Arc::new(InMemory::new());
            let meta = Arc::new(LocalMetadataClient::new());
            let Ok((all, base)) = dataset(&mut rng, idx as i64 * 10_000, store.clone(), meta.clone()).await else { continue };
            let Ok(mut node) = QueryNode::new(crate::checks::c09::query_config(), store.clone(), meta.clone() as Arc<dyn MetadataClient>, storage_config()).await else { continue };
            if rng.chance(1, 2) {
                node = node.with_adaptive_indexing(Arc::new(cardinalsin::adaptive_index::AdaptiveIndexController::new(cardinalsin::adaptive_index::AdaptiveIndexConfig::default())));
                out.count("stress.rounds_with_adaptive_indexing", 1);
            }
            let node = Arc::new(node);
            let nq = 8 + rng.usize(9);
            let queries: Vec<String> = (0..nq).map(|_| gen_query(&mut rng, base)).collect();
            let mut want = vec![];
            for q in &queries {
                want.push(oracle(&all, q).await);
            }
            let mut hs = vec![];
            for q in queries.iter().cloned() {
                let node = node.clone();
                // every query is issued several times in a row, so that re-registrations of the table keep coming
                // while the others plan (the first answer that deviates, or the first error, is the task's result)
                hs.push(tokio::spawn(async move {
                    let mut last = Err("not run".to_string());
                    let mut first: Option<Vec<String>> = None;
                    for _ in 0..10 {
                        last = node.query(&q).await.map(|b| rows::canonical_rows(&b)).map_err(|e| e.to_string());
                        match (&last, &first) {
                            (Err(_), _) => return last,
                            (Ok(a), Some(f)) if a != f => return last,
                            (Ok(a), None) => first = Some(a.clone()),
                            _ => {}
                        }
                    }
                    last
                }));
            }
            out.eval();
            out.count("stress.rounds", 1);
            out.count("stress.queries", 10 * nq as u64);
            out.nontrivial(hash_str(&format!("stress|{}", idx)));
            for (i, h) in hs.into_iter().enumerate() {
                let got = h.await.unwrap_or_else(|e| Err(e.to_string()));
                if let (Ok(g), Ok(w)) = (&got, &want[i]) {
                    if g != w {
                        out.violation(
                            "C10/answer-differs-under-concurrency",
                            &format!("real threads: {} returned {} rows, the reference {}", queries[i], g.len(), w.len()),
                            json!({"lane": "stress", "round": idx, "seed": ctx.seed, "query": queries[i], "concurrent_queries": nq}),
                        );
                    }
                } else if let Err(e) = &got {
                    out.violation("C10/query-error-under-concurrency", &format!("{}: {}", queries[i], e), json!({"lane": "stress", "round": idx}));
                }
            }
        }
    });
}
