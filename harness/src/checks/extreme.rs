//! Extreme-timestamp lane shared by C06 and C07: chunk intervals within a few hours of
//! i64::MAX / i64::MIN nanoseconds (narrow intervals - a few ns to two hours wide).
//!
//! The arithmetic around hour buckets is where such values bite (bucket + one hour
//! overflows), and the failure mode is not a wrong answer but a process that panics
//! (overflow checks on) or walks all ~5 million hour buckets of the i64 range (checks
//! off). The cases therefore run in a worker process with hard resource limits
//! (RLIMIT_AS, RLIMIT_CPU - CPU time, so machine load does not matter); the parent
//! reads one line per case and attributes a death to the case that was running.
//!
//!   mode "C07": register / look up / delete on both catalog backends vs the interval model
//!   mode "C06": one batch through the real ingester (flush on every write), catalog entry
//!               and stored rows compared with what was written

use crate::outcome::Outcome;
use crate::rng::{hash_str, Rng};
use crate::rows::{self, RowSpec, SchemaKind};
use crate::Ctx;
use cardinalsin::ingester::{ChunkMetadata, Ingester};
use cardinalsin::metadata::{LocalMetadataClient, MetadataClient, ObjectStoreMetadataClient, ObjectStoreMetadataConfig, TimeRange};
use cardinalsin::schema::MetricSchema;
use serde_json::json;
use std::io::{BufRead, Write};
use std::sync::Arc;

const H: i64 = 3_600_000_000_000;
pub const CASES: u64 = 48;

/// A narrow interval near one end of the representable range.
fn gen_extreme_interval(rng: &mut Rng) -> (i64, i64) {
    let width = *rng.pick(&[0i64, 1, 5, 1000, H - 1, H, 2 * H]);
    if rng.chance(1, 2) {
        let b = i64::MAX - *rng.pick(&[0i64, 1, 5, H / 2, H - 1, H, H + 1, 3 * H]);
        (b.saturating_sub(width), b)
    } else {
        let a = i64::MIN + *rng.pick(&[0i64, 1, 5, H / 2, H - 1, H, H + 1, 3 * H]);
        (a, a.saturating_add(width))
    }
}

fn say(line: &str) {
    let so = std::io::stdout();
    let mut l = so.lock();
    let _ = writeln!(l, "{}", line);
    let _ = l.flush();
}

/// Worker process body. Prints "BEGIN <idx> <description>", then "OK <idx>" or "BAD <idx> <signature-suffix> <text>".
pub fn worker(seed: u64, mode: &str) {
    let rt = tokio::runtime::Builder::new_current_thread().enable_all().build().unwrap();
    rt.block_on(async {
        for idx in 0..CASES {
            let mut rng = Rng::derive(seed, &format!("{}-extreme", mode), 0, idx);
            let (a, b) = gen_extreme_interval(&mut rng);
            say(&format!("BEGIN {} interval=[{}, {}]", idx, a, b));
            let r = if mode == "C06" { ingest_case(&mut rng, idx, a, b).await } else { catalog_case(&mut rng, idx, a, b).await };
            match r {
                Ok(()) => say(&format!("OK {}", idx)),
                Err((sig, text)) => say(&format!("BAD {} {} {}", idx, sig, text.replace('\n', " "))),
            }
        }
    });
    say("END");
}

async fn catalog_case(rng: &mut Rng, _idx: u64, a: i64, b: i64) -> Result<(), (String, String)> {
    let local: Arc<dyn MetadataClient> = Arc::new(LocalMetadataClient::new());
    let store = Arc::new(object_store::memory::InMemory::new());
    let s3: Arc<dyn MetadataClient> = Arc::new(ObjectStoreMetadataClient::new(store, ObjectStoreMetadataConfig::default()));
    // an ordinary chunk next to the extreme one
    let (oa, ob) = (1_700_000_000_000_000_000i64, 1_700_000_000_000_000_000i64 + 5);
    for (name, c) in [("local", &local), ("object-store", &s3)] {
        for (p, x, y) in [("t/data/extreme.parquet", a, b), ("t/data/ordinary.parquet", oa, ob)] {
            let md = ChunkMetadata { path: p.to_string(), min_timestamp: x, max_timestamp: y, row_count: 3, size_bytes: 100 };
            let c2 = c.clone();
            let h = tokio::spawn(async move { c2.register_chunk(&md.path.clone(), &md).await.map_err(|e| e.to_string()) });
            match h.await {
                Ok(Ok(())) => {}
                // a refusal is an answer (the chunk is then not live, nothing to look up)
                Ok(Err(_)) if p == "t/data/extreme.parquet" => return Ok(()),
                Ok(Err(e)) => return Err((format!("{}/registration-refused", name), format!("register_chunk([{}, {}]) of an ordinary chunk -> {}", x, y, e))),
                Err(_) => return Err((format!("{}/registration-panicked", name), format!("register_chunk([{}, {}]) panicked", x, y))),
            }
        }
        let mut ranges = vec![(a, b), (a, a), (b, b), (i64::MIN, i64::MAX), (i64::MAX - 10 * H, i64::MAX), (i64::MIN, i64::MIN + 10 * H), (oa, ob), (0, 1)];
        ranges.push((a.saturating_sub(1), a.saturating_sub(1)));
        ranges.push((b.saturating_add(1), b.saturating_add(1)));
        for _ in 0..4 {
            let (x, y) = gen_extreme_interval(rng);
            ranges.push((x, y));
        }
        for (s, e) in ranges {
            let mut exp: Vec<&str> = vec![];
            if a.max(s) <= b.min(e) {
                exp.push("t/data/extreme.parquet");
            }
            if oa.max(s) <= ob.min(e) {
                exp.push("t/data/ordinary.parquet");
            }
            let c2 = c.clone();
            let h = tokio::spawn(async move { c2.get_chunks(TimeRange::new(s, e)).await.map_err(|e| e.to_string()) });
            let got = match h.await {
                Ok(Ok(v)) => v,
                Ok(Err(e2)) => return Err((format!("{}/lookup-error", name), format!("get_chunks([{}, {}]) -> {}", s, e, e2))),
                Err(_) => return Err((format!("{}/lookup-panicked", name), format!("get_chunks([{}, {}]) panicked", s, e))),
            };
            let mut gp: Vec<String> = got.iter().map(|x| x.chunk_path.clone()).collect();
            gp.sort();
            if gp != exp {
                return Err((format!("{}/wrong-answer", name), format!("chunk [{}, {}]: get_chunks([{}, {}]) returned {:?}, expected {:?}", a, b, s, e, gp, exp)));
            }
        }
        let c2 = c.clone();
        let h = tokio::spawn(async move { c2.delete_chunk("t/data/extreme.parquet").await.map_err(|e| e.to_string()) });
        match h.await {
            Ok(Ok(())) => {}
            Ok(Err(e)) => return Err((format!("{}/delete-refused", name), e)),
            Err(_) => return Err((format!("{}/delete-panicked", name), "delete_chunk panicked".into())),
        }
        match c.get_chunks(TimeRange::new(i64::MIN, i64::MAX)).await {
            Ok(v) if v.len() == 1 && v[0].chunk_path == "t/data/ordinary.parquet" => {}
            other => return Err((format!("{}/wrong-answer-after-delete", name), format!("{:?}", other.map(|v| v.into_iter().map(|x| x.chunk_path).collect::<Vec<_>>())))),
        }
    }
    Ok(())
}

async fn ingest_case(rng: &mut Rng, idx: u64, a: i64, b: i64) -> Result<(), (String, String)> {
    let store = Arc::new(object_store::memory::InMemory::new());
    let meta: Arc<dyn MetadataClient> = if idx % 2 == 0 {
        Arc::new(LocalMetadataClient::new())
    } else {
        Arc::new(ObjectStoreMetadataClient::new(store.clone(), ObjectStoreMetadataConfig::default()))
    };
    let ing = Arc::new(Ingester::new(
        crate::checks::c03::no_wal_ingester_config(),
        store.clone(),
        meta.clone(),
        crate::checks::c01::storage_config(),
        MetricSchema::default_metrics(),
    ));
    let kind = if rng.chance(1, 2) { SchemaKind::T } else { SchemaKind::B };
    let mut ts = vec![a, b];
    if b > a {
        ts.push(a + (b - a) / 2);
    }
    let rows_: Vec<RowSpec> = ts.iter().enumerate().map(|(i, t)| RowSpec { id: idx as i64 * 10 + i as i64 + 1, ts: *t, metric: "m".into(), host: Some("h".into()), value: 1.0 }).collect();
    let batch = rows::make_batch(kind, &rows_);
    let ing2 = ing.clone();
    let h = tokio::spawn(async move { ing2.write(batch).await.map_err(|e| e.to_string()) });
    match h.await {
        Ok(Ok(())) => {}
        // a refusal is an answer: the write was not accepted, nothing has to be stored
        Ok(Err(_)) => return Ok(()),
        Err(_) => return Err(("write-panicked".into(), format!("Ingester::write of rows with timestamps {:?} panicked", ts))),
    }
    let chunks = meta.list_chunks().await.map_err(|e| ("list-error".to_string(), e.to_string()))?;
    if chunks.len() != 1 {
        return Err(("accepted-write-not-registered".into(), format!("accepted write with timestamps {:?}: {} chunks in the catalog", ts, chunks.len())));
    }
    let c = &chunks[0];
    if c.min_timestamp != a || c.max_timestamp != b || c.row_count != rows_.len() as u64 {
        return Err(("catalog-entry-differs-from-chunk".into(), format!("catalog says [{}, {}] x{}, written [{}, {}] x{}", c.min_timestamp, c.max_timestamp, c.row_count, a, b, rows_.len())));
    }
    let ids = rows::read_chunk_ids(store.as_ref(), &c.chunk_path).await.map_err(|e| ("chunk-unreadable".to_string(), e))?;
    let mut want: Vec<i64> = rows_.iter().map(|r| r.id).collect();
    let mut got = ids.clone();
    want.sort();
    got.sort();
    if want != got {
        return Err(("stored-rows-differ".into(), format!("stored ids {:?}, written {:?}", got, want)));
    }
    Ok(())
}

/// Parent side: run the worker under resource limits and judge its report.
pub fn lane(ctx: &Ctx, out: &mut Outcome, prop: &str) {
    if ctx.shard != 0 {
        return;
    }
    if std::env::var("CSVERIF_UNDER_VALGRIND").is_ok() {
        return; // address-space limits and valgrind do not mix
    }
    let exe = match std::env::current_exe() {
        Ok(e) => e,
        Err(e) => {
            out.note(&format!("extreme-timestamp lane not run: {e}"));
            return;
        }
    };
    use std::os::unix::process::CommandExt;
    let mut cmd = std::process::Command::new(exe);
    cmd.arg("extreme-worker").arg("--seed").arg(ctx.seed.to_string()).arg("--out").arg(prop).stdout(std::process::Stdio::piped()).stderr(std::process::Stdio::null());
    unsafe {
        cmd.pre_exec(|| {
            let as_lim = libc::rlimit { rlim_cur: 3 << 30, rlim_max: 3 << 30 };
            let cpu_lim = libc::rlimit { rlim_cur: 90, rlim_max: 90 };
            libc::setrlimit(libc::RLIMIT_AS, &as_lim);
            libc::setrlimit(libc::RLIMIT_CPU, &cpu_lim);
            Ok(())
        });
    }
    let mut child = match cmd.spawn() {
        Ok(c) => c,
        Err(e) => {
            out.note(&format!("extreme-timestamp lane not run: {e}"));
            return;
        }
    };
    let stdout = child.stdout.take().unwrap();
    let mut current: Option<(u64, String)> = None;
    let mut ended = false;
    for line in std::io::BufReader::new(stdout).lines().map_while(Result::ok) {
        let mut it = line.splitn(3, ' ');
        match (it.next(), it.next(), it.next()) {
            (Some("BEGIN"), Some(i), Some(rest)) => current = Some((i.parse().unwrap_or(0), rest.to_string())),
            (Some("OK"), Some(_), _) => {
                out.eval();
                out.count("extreme.cases_ok", 1);
                if let Some((i, d)) = &current {
                    out.nontrivial(hash_str(&format!("extreme|{}|{}|{}", prop, i, d)));
                }
                current = None;
            }
            (Some("BAD"), Some(i), Some(rest)) => {
                out.eval();
                let mut p = rest.splitn(2, ' ');
                let sig = p.next().unwrap_or("?");
                let text = p.next().unwrap_or("");
                out.violation(
                    &format!("{}/extreme-timestamp/{}", prop, sig),
                    &format!("chunk {} (within hours of the end of the i64 nanosecond range): {}", current.as_ref().map(|c| c.1.as_str()).unwrap_or(""), text),
                    json!({"lane": "extreme", "case_index": i, "seed": ctx.seed}),
                );
                current = None;
            }
            (Some("END"), _, _) => ended = true,
            _ => {}
        }
    }
    let status = child.wait();
    if !ended {
        match current {
            Some((i, d)) => {
                out.eval();
                out.violation(
                    &format!("{}/extreme-timestamp/resource-exhaustion-or-crash", prop),
                    &format!(
                        "the worker died (status {:?}) or ran into its limits (3 GiB address space, 90 s CPU) while handling one narrow chunk {} - the hour-bucket walk left the chunk's interval",
                        status.map(|s| s.to_string()),
                        d
                    ),
                    json!({"lane": "extreme", "case_index": i, "seed": ctx.seed}),
                );
            }
            None => out.inconclusive("extreme-timestamp worker ended without a report and without a case in progress"),
        }
    }
}
