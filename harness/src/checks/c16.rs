//! C16 — the tiered cache is transparent.
//!
//! STRESS: `CachedObjectStore` over an InMemory store whose objects are
//! write-once and whose content is a pseudo-random function of the key, so a
//! read answered from another object's cached content is visible. Tiers are
//! tiny (L1 100 B .. 64 KB, L2 none / 1 MB / 16 MB) so that eviction happens on
//! almost every insert and L2->L1 promotion after eviction is exercised; object
//! sizes range from 0 B to larger than a tier. 1–16 concurrent readers on real
//! threads issue whole / ranged / conditional reads of the same and of
//! different keys while new objects keep being written. Oracle: returned bytes
//! == PRF(key)[range]; a key that was never written must fail.

use crate::outcome::Outcome;
use crate::rng::{hash_str, Rng};
use crate::util;
use crate::Ctx;
use bytes::Bytes;
use cardinalsin::query::{CacheConfig, CachedObjectStore, TieredCache};
use object_store::memory::InMemory;
use object_store::path::Path;
use object_store::{GetOptions, GetRange, ObjectStore};
use parking_lot::Mutex;
use serde_json::json;
use std::sync::Arc;

fn prf(key: &str, len: usize) -> Vec<u8> {
    let mut r = Rng::new(hash_str(key));
    let mut v = Vec::with_capacity(len + 8);
    while v.len() < len {
        v.extend_from_slice(&r.next_u64().to_le_bytes());
    }
    v.truncate(len);
    v
}

fn size_of(key: &str, rng_sizes: &[usize]) -> usize {
    rng_sizes[(hash_str(key) % rng_sizes.len() as u64) as usize]
}

pub fn run(ctx: &Ctx) -> Outcome {
    let mut out = Outcome::new(
        "C16",
        "case = one read (whole / ranged / conditional / of a missing key) through CachedObjectStore under a configuration of tiny tiers, \
         concurrent with other readers and with writes of new objects; non-trivial = the read was served after at least one eviction-forcing \
         insert had happened in that configuration and hit a key that had been read before (so a cache tier, not the backing store, could answer), \
         distinct by hash of (configuration, reader, op index)",
    );
    out.assume("objects are write-once (every chunk gets a fresh unique path and is never rewritten) - the property's own premise");
    let configs: Vec<(usize, Option<usize>)> = vec![
        (100, None),
        (1_000, None),
        (64 * 1024, None),
        (100, Some(1 << 20)),
        (1_000, Some(16 << 20)),
        (64 * 1024, Some(1 << 20)),
        // degenerate tier sizes
        (0, None),
        (1, Some(1 << 20)),
    ];
    let reads_per_cfg: u64 = if ctx.thorough { 3_000_000 } else { 200_000 };
    let root = util::scratch_dir("c16");
    let rt = tokio::runtime::Builder::new_multi_thread().worker_threads(8).enable_all().build().unwrap();
    let nc = configs.len() as u64;
    let mine: Vec<usize> = if ctx.nshards <= nc {
        (0..configs.len()).filter(|ci| (*ci as u64) % ctx.nshards == ctx.shard).collect()
    } else {
        vec![(ctx.shard % nc) as usize]
    };
    for ci in mine {
        let (l1, l2) = &configs[ci];
        let dir = format!("{}/l2-{}-{}", root, ci, ctx.shard);
        rt.block_on(one_config(ctx, &mut out, ci, *l1, *l2, &dir, reads_per_cfg));
        let _ = std::fs::remove_dir_all(&dir);
    }
    util::remove_dir(&root);
    out
}

async fn one_config(ctx: &Ctx, out: &mut Outcome, ci: usize, l1: usize, l2: Option<usize>, dir: &str, reads: u64) {
    let cache = match TieredCache::new(CacheConfig {
        l1_size: l1,
        l2_size: l2.unwrap_or(0),
        l2_dir: l2.map(|_| {
            std::fs::create_dir_all(dir).ok();
            dir.to_string()
        }),
    })
    .await
    {
        Ok(c) => Arc::new(c),
        Err(e) => {
            out.inconclusive(&format!("config {ci}: cache could not be built: {e}"));
            return;
        }
    };
    let inner = Arc::new(InMemory::new());
    // every other configuration reads from a backing store whose whole-object downloads arrive in pieces and are
    // now and then cut in the middle of the body: such a read may fail, but a read that succeeds returns the object
    let flaky = ci % 2 == 1;
    let flaky_store = Arc::new(util::FlakyBodyStore { inner: inner.clone(), every: 7, counter: Default::default(), cuts: Default::default() });
    let backing: Arc<dyn ObjectStore> = if flaky { flaky_store.clone() } else { inner.clone() };
    let store = Arc::new(CachedObjectStore::new(backing, cache.clone()));
    let sizes: Vec<usize> = vec![0, 1, 7, 50, 99, 100, 101, 500, 999, 1_000, 4_096, 20_000, 70_000, 200_000];
    let written: Arc<Mutex<Vec<String>>> = Arc::new(Mutex::new(vec![]));
    let read_before: Arc<Mutex<std::collections::HashSet<String>>> = Arc::new(Mutex::new(Default::default()));
    let nreaders = 1 + (hash_str(&format!("{}{}", ci, ctx.seed)) % 16) as usize;
    let per_reader = reads / nreaders as u64;
    let violations: Arc<Mutex<Vec<(String, String, serde_json::Value)>>> = Arc::new(Mutex::new(vec![]));
    let stats: Arc<Mutex<(u64, u64, u64, u64, Vec<u64>, u64, u64)>> = Arc::new(Mutex::new((0, 0, 0, 0, vec![], 0, 0))); // whole, ranged, conditional, missing, nontrivial hashes
    // writer: keeps adding new objects (write-once)
    let w_inner = inner.clone();
    let w_written = written.clone();
    let sizes_w = sizes.clone();
    let total_keys = 400usize;
    let seed = ctx.seed;
    let shard = ctx.shard;
    let writer = tokio::spawn(async move {
        for k in 0..total_keys {
            let key = format!("t/data/cfg{}/chunk_{}_{}_{}.parquet", ci, seed, shard, k);
            let n = size_of(&key, &sizes_w);
            let _ = w_inner.put(&Path::from(key.as_str()), prf(&key, n).into()).await;
            // every third object has a twin with the same file name in another directory (and other content):
            // whatever a tier is keyed by must tell them apart
            if k % 3 == 0 {
                let twin = format!("t/data/cfg{}/twin/chunk_{}_{}_{}.parquet", ci, seed, shard, k);
                let tn = size_of(&twin, &sizes_w);
                let _ = w_inner.put(&Path::from(twin.as_str()), prf(&twin, tn).into()).await;
                w_written.lock().push(twin);
            }
            w_written.lock().push(key);
            if k % 8 == 0 {
                tokio::task::yield_now().await;
            }
        }
    });
    let mut hs = vec![];
    for r in 0..nreaders {
        let store = store.clone();
        let written = written.clone();
        let read_before = read_before.clone();
        let violations = violations.clone();
        let stats = stats.clone();
        let sizes = sizes.clone();
        let mut rng = Rng::derive(ctx.seed, "C16", ctx.shard * 100 + ci as u64, r as u64);
        hs.push(tokio::spawn(async move {
            for opi in 0..per_reader {
                // a read of a key the writer has not reached yet (it fails, or - if the writer was faster - returns
                // the object); the same key is read again later through the ordinary picks, when it does exist
                if rng.chance(1, 12) {
                    let next = written.lock().len() + rng.usize(3);
                    if next < total_keys {
                        let key = format!("t/data/cfg{}/chunk_{}_{}_{}.parquet", ci, seed, shard, next);
                        let n = size_of(&key, &sizes);
                        match store.get(&Path::from(key.as_str())).await {
                            Ok(g) => {
                                if let Ok(b) = g.bytes().await {
                                    if b.as_ref() != &prf(&key, n)[..] {
                                        violations.lock().push(("C16/wrong-bytes".into(), format!("early get of {} returned {} bytes that differ from the backing store", key, b.len()), json!({"key": key, "op": "get(early)", "l1": l1, "l2": l2})));
                                    }
                                }
                            }
                            Err(_) => {
                                stats.lock().5 += 1;
                            }
                        }
                        continue;
                    }
                }
                let key = {
                    let w = written.lock();
                    if w.is_empty() || rng.chance(1, 25) {
                        None
                    } else if rng.chance(1, 2) {
                        // hot keys: same key read by many readers
                        Some(w[rng.usize(w.len().min(6))].clone())
                    } else {
                        Some(w[rng.usize(w.len())].clone())
                    }
                };
                let Some(key) = key else {
                    // a key the backing store does not have
                    let missing = format!("t/data/cfg{}/never_{}_{}.parquet", ci, r, opi);
                    let res = store.get(&Path::from(missing.as_str())).await;
                    stats.lock().3 += 1;
                    if let Ok(g) = res {
                        let b = g.bytes().await.map(|b| b.len()).unwrap_or(0);
                        violations.lock().push(("C16/missing-object-answered".into(), format!("read of never-written {} returned {} bytes", missing, b), json!({"key": missing})));
                    }
                    continue;
                };
                let n = size_of(&key, &sizes);
                let want = prf(&key, n);
                let loc = Path::from(key.as_str());
                let kind = rng.below(10);
                let was_read = read_before.lock().contains(&key);
                let (got, what, lo, hi): (Result<Bytes, String>, &str, usize, usize) = if kind < 6 {
                    let r = match store.get(&loc).await {
                        Ok(g) => g.bytes().await.map_err(|e| e.to_string()),
                        Err(e) => Err(e.to_string()),
                    };
                    stats.lock().0 += 1;
                    (r, "get", 0, n)
                } else if kind < 8 && n > 0 {
                    let a = rng.usize(n);
                    let b = a + 1 + rng.usize(n - a);
                    stats.lock().1 += 1;
                    let pick = rng.below(3);
                    if pick == 0 {
                        (store.get_range(&loc, a..b).await.map_err(|e| e.to_string()), "get_range", a, b)
                    } else if pick == 1 {
                        // several ranges in one call; the one judged below is [a, b), the others are compared here
                        let c = rng.usize(n);
                        let d = c + 1 + rng.usize(n - c);
                        let rs = vec![c..d, a..b, 0..1.min(n)];
                        match store.get_ranges(&loc, &rs).await {
                            Ok(v) if v.len() == 3 => {
                                if v[0].as_ref() != &want[c..d] || v[2].as_ref() != &want[0..1.min(n)] {
                                    violations.lock().push(("C16/wrong-bytes".into(), format!("get_ranges of {} {:?} returned bytes that differ from the backing store", key, rs), json!({"key": key, "op": "get_ranges", "ranges": [[c, d], [a, b]], "l1": l1, "l2": l2})));
                                }
                                (Ok(v[1].clone()), "get_ranges", a, b)
                            }
                            Ok(v) => (Err(format!("get_ranges returned {} results for 3 ranges", v.len())), "get_ranges", a, b),
                            Err(e) => (Err(e.to_string()), "get_ranges", a, b),
                        }
                    } else {
                        let o = GetOptions { range: Some(GetRange::Bounded(a..b)), ..Default::default() };
                        let r = match store.get_opts(&loc, o).await {
                            Ok(g) => g.bytes().await.map_err(|e| e.to_string()),
                            Err(e) => Err(e.to_string()),
                        };
                        (r, "get_opts(range)", a, b)
                    }
                } else {
                    // conditional / plain get_opts
                    stats.lock().2 += 1;
                    // preconditions that hold (a tag the object does not have for if-none-match, its real tag for
                    // if-match, or both) and, for half of them, a range in the same request: the consistent ranged read
                    let mut o = GetOptions::default();
                    let (mut lo, mut hi) = (0usize, n);
                    let mut what = "get_opts";
                    let cond = rng.below(4);
                    if cond == 1 || cond == 3 {
                        o.if_none_match = Some("no-such-etag".into());
                    }
                    if cond == 2 || cond == 3 {
                        match store.head(&loc).await {
                            Ok(m) if m.e_tag.is_some() => o.if_match = m.e_tag.clone(),
                            _ => {}
                        }
                    }
                    if cond != 0 {
                        what = "get_opts(conditional)";
                    }
                    if n > 1 && rng.chance(1, 2) {
                        match rng.below(3) {
                            0 => {
                                let a = rng.usize(n);
                                let b = a + 1 + rng.usize(n - a);
                                o.range = Some(GetRange::Bounded(a..b));
                                lo = a;
                                hi = b;
                            }
                            1 => {
                                let a = rng.usize(n);
                                o.range = Some(GetRange::Offset(a));
                                lo = a;
                            }
                            _ => {
                                let k = 1 + rng.usize(n - 1);
                                o.range = Some(GetRange::Suffix(k));
                                lo = n - k;
                            }
                        }
                        what = if cond != 0 { "get_opts(conditional+range)" } else { "get_opts(range)" };
                        stats.lock().6 += if cond != 0 { 1 } else { 0 };
                    }
                    let _ = &mut hi;
                    let r = match store.get_opts(&loc, o).await {
                        Ok(g) => g.bytes().await.map_err(|e| e.to_string()),
                        Err(e) => Err(e.to_string()),
                    };
                    (r, what, lo, hi)
                };
                read_before.lock().insert(key.clone());
                if was_read {
                    stats.lock().4.push(hash_str(&format!("{}|{}|{}", ci, r, opi)));
                }
                match got {
                    Ok(b) => {
                        if b.as_ref() != &want[lo..hi] {
                            // whose content is it?
                            let owner = {
                                let w = written.lock();
                                w.iter().find(|k| {
                                    let kn = size_of(k, &sizes);
                                    kn >= b.len() && prf(k, kn)[..b.len()] == b[..] && **k != key
                                }).cloned()
                            };
                            violations.lock().push((
                                if owner.is_some() { "C16/content-of-another-object".into() } else { "C16/wrong-bytes".into() },
                                format!("{} of {} [{}..{}) returned {} bytes that differ from the backing store{}", what, key, lo, hi, b.len(), owner.map(|o| format!(" (they are the content of {})", o)).unwrap_or_default()),
                                json!({"key": key, "op": what, "range": [lo, hi], "reader": r, "op_index": opi, "l1": l1, "l2": l2}),
                            ));
                        }
                    }
                    Err(_) if flaky => {
                        // the download may have been one of the cut ones: an error is an answer
                        stats.lock().5 += 0;
                    }
                    Err(e) => {
                        violations.lock().push((
                            "C16/read-of-existing-object-failed".into(),
                            format!("{} of {} failed: {}", what, key, e.chars().take(200).collect::<String>()),
                            json!({"key": key, "op": what, "reader": r, "op_index": opi, "l1": l1, "l2": l2}),
                        ));
                    }
                }
            }
        }));
    }
    let _ = writer.await;
    for h in hs {
        let _ = h.await;
    }
    let st = stats.lock().clone();
    out.evaluations += st.0 + st.1 + st.2 + st.3;
    out.count("reads.whole", st.0);
    if flaky {
        out.count("backing_downloads_cut_in_the_middle_of_the_body", flaky_store.cuts.load(std::sync::atomic::Ordering::Relaxed));
    }
    out.count("reads.before_the_object_existed", st.5);
    out.count("reads.ranged", st.1);
    out.count("reads.get_opts", st.2);
    out.count("reads.get_opts_with_precondition_and_range", st.6);
    out.count("reads.missing_key", st.3);
    for h in st.4 {
        out.nontrivial(h);
    }
    let cs = cache.stats();
    out.count("cache.l1_hits", cs.l1_hits);
    out.count("cache.l1_misses", cs.l1_misses);
    out.count("cache.l2_hits", cs.l2_hits);
    out.count("cache.l2_misses", cs.l2_misses);
    out.count("configurations", 1);
    out.sample(json!({"config": ci, "l1_bytes": l1, "l2_bytes": l2, "readers": nreaders, "keys": 400, "reads": reads,
        "l1_hits": cs.l1_hits, "l2_hits": cs.l2_hits, "l1_misses": cs.l1_misses}));
    for (sig, what, w) in violations.lock().iter() {
        out.violation(sig, what, json!({"seed": ctx.seed, "config": ci, "detail": w}));
    }
    cache.clear().await;
}
