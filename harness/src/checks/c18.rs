//! C18 — live-tail delivery matches the subscription's filter.
//!
//! Lane 1 (input level): `QueryFilter::from_sql(sql).apply(batch, merge)` on random
//! batches x WHERE clauses of the supported family (comparisons in either operand
//! order, AND, OR, parentheses; literals of a type compatible with the column);
//! reference = DataFusion evaluating `(<WHERE>) AND timestamp >= merge` on the
//! same batch; rows compared by identity, in order.
//! Lane 2 (end to end): real ingester -> `QueryNode::query_stream` /
//! `query_stream_filtered` with the merge instant fixed by the frozen clock;
//! delivered rows per flushed batch, in flush order, each once.
//! Lane 3: random TopicFilter trees x batch metadata through the real
//! TopicBroadcastChannel / FilteredReceiver vs reference topic semantics.
//! Lane 5: topic-filtered subscriptions end to end - the batch metadata (tenant, shard, set of
//! metric names) is the one the real ingester derives when it flushes, not one the harness made up.
//! Lane 4 (transport): the same subscriptions made the way a client makes them - a
//! WebSocket connection to /api/v1/stream of the real HTTP router on a loopback
//! socket, {"query": ..., "live": true} - with sentinel batches (known to satisfy the
//! WHERE clause) delimiting the observed window, so no timing enters the verdict.

use crate::clock;
use crate::outcome::Outcome;
use crate::rng::{hash_str, Rng};
use crate::rows;
use crate::Ctx;
use arrow_array::{Array, Float64Array, Int64Array, RecordBatch, StringArray, TimestampNanosecondArray};
use arrow_schema::{DataType, Field, Schema, TimeUnit};
use cardinalsin::ingester::{BatchMetadata, Ingester, TopicBatch, TopicBroadcastChannel, TopicFilter};
use cardinalsin::metadata::{LocalMetadataClient, MetadataClient, ObjectStoreMetadataClient, ObjectStoreMetadataConfig};
use crate::util;
use cardinalsin::query::{QueryFilter, QueryNode};
use cardinalsin::schema::MetricSchema;
use datafusion::prelude::SessionContext;
use object_store::memory::InMemory;
use serde_json::json;
use std::sync::Arc;
use std::time::Duration;

#[derive(Clone, Debug)]
struct Row {
    id: i64,
    ts: i64,
    metric: String,
    vi: Option<i64>,
    vf: Option<f64>,
    host: Option<String>,
}

fn make_batch(rows: &[Row], ts_typed: bool) -> RecordBatch {
    let ts_field = if ts_typed {
        Field::new("timestamp", DataType::Timestamp(TimeUnit::Nanosecond, Some("UTC".into())), false)
    } else {
        Field::new("timestamp", DataType::Int64, false)
    };
    let ts: Vec<i64> = rows.iter().map(|r| r.ts).collect();
    let ts_arr: Arc<dyn Array> = if ts_typed { Arc::new(TimestampNanosecondArray::from(ts).with_timezone("UTC")) } else { Arc::new(Int64Array::from(ts)) };
    RecordBatch::try_new(
        Arc::new(Schema::new(vec![
            ts_field,
            Field::new("metric_name", DataType::Utf8, false),
            Field::new("value_i64", DataType::Int64, true),
            Field::new("value_f64", DataType::Float64, true),
            Field::new("host", DataType::Utf8, true),
            Field::new("value_u64", DataType::UInt64, false), // carries the row id
            Field::new("rid", DataType::Utf8, false),         // the row id again, as text (survives the JSON rendering of the WebSocket transport)
        ])),
        vec![
            ts_arr,
            Arc::new(StringArray::from(rows.iter().map(|r| r.metric.clone()).collect::<Vec<_>>())),
            Arc::new(Int64Array::from(rows.iter().map(|r| r.vi).collect::<Vec<_>>())),
            Arc::new(Float64Array::from(rows.iter().map(|r| r.vf).collect::<Vec<_>>())),
            Arc::new(StringArray::from(rows.iter().map(|r| r.host.clone()).collect::<Vec<_>>())),
            Arc::new(arrow_array::UInt64Array::from(rows.iter().map(|r| r.id as u64).collect::<Vec<_>>())),
            Arc::new(StringArray::from(rows.iter().map(|r| r.id.to_string()).collect::<Vec<_>>())),
        ],
    )
    .unwrap()
}

fn ids(b: &RecordBatch) -> Vec<u64> {
    use arrow_array::cast::AsArray;
    b.column_by_name("value_u64")
        .and_then(|c| c.as_primitive_opt::<arrow_array::types::UInt64Type>().map(|a| (0..a.len()).map(|i| a.value(i)).collect()))
        .unwrap_or_default()
}

fn gen_rows(rng: &mut Rng, merge: i64, first_id: i64) -> Vec<Row> {
    let n = 1 + rng.usize(12);
    (0..n)
        .map(|i| Row {
            id: first_id + i as i64,
            ts: merge + *rng.pick(&[-5i64, -1, 0, 0, 1, 7, 1000, 50_000]),
            metric: ["cpu", "mem", "disk"][rng.usize(3)].to_string(),
            vi: if rng.chance(1, 6) { None } else { Some(*rng.pick(&[-3i64, 0, 1, 10, 10, 11, 100])) },
            vf: if rng.chance(1, 6) { None } else { Some(*rng.pick(&[-1.5f64, 0.0, 1e-20, 0.5, 10.0, 10.0, 10.5, 99.9])) },
            host: if rng.chance(1, 5) { None } else { Some(["a", "b", "c", "A"][rng.usize(4)].to_string()) },
        })
        .collect()
}

/// WHERE clause of the supported family. Returns (sql text, construct tags).
fn gen_where(rng: &mut Rng, depth: u32, tags: &mut Vec<&'static str>) -> String {
    if depth > 0 && rng.chance(1, 2) {
        let a = gen_where(rng, depth - 1, tags);
        let b = gen_where(rng, depth - 1, tags);
        return if rng.chance(1, 2) {
            tags.push("AND");
            if rng.chance(1, 2) { format!("({} AND {})", a, b) } else { format!("{} AND {}", a, b) }
        } else {
            tags.push("OR");
            format!("({} OR {})", a, b)
        };
    }
    let ops = ["=", "<>", "<", "<=", ">", ">="];
    let op = ops[rng.usize(ops.len())];
    let (col, lit, tag): (&str, String, &'static str) = match rng.below(9) {
        0 | 1 => ("metric_name", format!("'{}'", ["cpu", "mem", "disk", "net"][rng.usize(4)]), "str"),
        2 | 3 => ("host", format!("'{}'", ["a", "b", "c", "A", "zz"][rng.usize(5)]), "str"),
        4 | 5 => ("value_i64", format!("{}", rng.pick(&[-3i64, 0, 1, 10, 11, 50])), "int"),
        6 => ("value_f64", format!("{}", rng.pick(&["0.5", "10.0", "10.5", "0.0", "-1.5", "1.5e1"])), "float"),
        7 => ("value_f64", format!("{}", rng.pick(&[0i64, 10, 11, 99])), "int-literal-on-float-column"),
        _ => ("value_i64", format!("{}", rng.pick(&["10.0", "10.5", "0.5"])), "float-literal-on-int-column"),
    };
    tags.push(tag);
    if rng.chance(1, 3) {
        tags.push("reversed");
        format!("{} {} {}", lit, op, col)
    } else {
        format!("{} {} {}", col, op, lit)
    }
}

async fn reference(batch: &RecordBatch, where_sql: &str, merge: i64, ts_typed: bool) -> Result<Vec<u64>, String> {
    let ctx = SessionContext::new();
    let mt = datafusion::datasource::MemTable::try_new(batch.schema(), vec![vec![batch.clone()]]).map_err(|e| e.to_string())?;
    ctx.register_table("metrics", Arc::new(mt)).map_err(|e| e.to_string())?;
    let tsexpr = if ts_typed { format!("timestamp >= arrow_cast({}, 'Timestamp(Nanosecond, Some(\"UTC\"))')", merge) } else { format!("timestamp >= {}", merge) };
    let sql = format!("SELECT value_u64 FROM metrics WHERE ({}) AND {}", where_sql, tsexpr);
    let df = ctx.sql(&sql).await.map_err(|e| e.to_string())?;
    let out = df.collect().await.map_err(|e| e.to_string())?;
    Ok(out.iter().flat_map(ids).collect())
}

pub fn run(ctx: &Ctx) -> Outcome {
    let mut out = Outcome::new(
        "C18",
        "case = one (filter, batch) application (lane 1), one end-to-end streaming subscription over several flushed batches (lane 2), or one topic \
         filter x batch metadata delivery (lane 3); non-trivial = the filter kept a non-empty strict subset of the batch's rows (lanes 1/2) or the topic \
         filter is a nested And/Or tree (lane 3), distinct by hash of (filter text, batch ids)",
    );
    out.assume("DataFusion 44 is the reference for SQL predicate semantics; the subscriber keeps up with the channel (no lag)");
    let rt = tokio::runtime::Builder::new_current_thread().enable_all().build().unwrap();
    let n1: u64 = if ctx.thorough { 14 * 60_000 } else { 24_000 };
    let n2: u64 = if ctx.thorough { 14 * 400 } else { 160 };
    let n3: u64 = if ctx.thorough { 14 * 100_000 } else { 40_000 };
    rt.block_on(async {
        lane1(ctx, &mut out, n1).await;
        lane3(ctx, &mut out, n3).await;
    });
    lane2(ctx, &mut out, n2);
    let n4: u64 = if ctx.thorough { 14 * 120 } else { 48 };
    lane4(ctx, &mut out, n4);
    let n5: u64 = if ctx.thorough { 14 * 3000 } else { 1600 };
    lane5(ctx, &mut out, n5);
    clock::unfreeze_wall();
    out
}

async fn lane1(ctx: &Ctx, out: &mut Outcome, total: u64) {
    for idx in ctx.my_cases(total) {
        let mut rng = ctx.rng("C18-l1", idx);
        let merge = 1_700_000_000_000_000_000i64;
        let ts_typed = rng.chance(1, 3);
        let rows = gen_rows(&mut rng, merge, idx as i64 * 100);
        let batch = make_batch(&rows, ts_typed);
        let mut tags = vec![];
        let w = gen_where(&mut rng, 2, &mut tags);
        let sql = format!("SELECT * FROM metrics WHERE {}", w);
        let want = match reference(&batch, &w, merge, ts_typed).await {
            Ok(v) => v,
            Err(_) => {
                out.count("lane1.reference_rejected_sql", 1);
                continue;
            }
        };
        let filter = QueryFilter::from_sql(&sql);
        let got: Result<Vec<u64>, String> = match std::panic::catch_unwind(std::panic::AssertUnwindSafe(|| filter.apply(&batch, merge))) {
            Ok(Ok(Some(b))) => Ok(ids(&b)),
            Ok(Ok(None)) => Ok(vec![]),
            Ok(Err(e)) => Err(e.to_string()),
            Err(_) => Err("panic".into()),
        };
        out.eval();
        out.count("lane1.applications", 1);
        let mut t = tags.clone();
        t.sort();
        t.dedup();
        if !want.is_empty() && want.len() < rows.len() {
            out.nontrivial(hash_str(&format!("{}|{:?}", w, ids(&batch))));
        }
        match got {
            Ok(g) if g == want => {}
            other => {
                // signature by the constructs involved, most specific first
                let cls = if t.contains(&"OR") {
                    "disjunction"
                } else if t.contains(&"int-literal-on-float-column") || t.contains(&"float-literal-on-int-column") {
                    "literal-type-differs-from-column-type"
                } else if t.contains(&"float") {
                    "float-comparison"
                } else {
                    "other"
                };
                out.violation(
                    &format!("C18/filter/{}", cls),
                    &format!("WHERE {} : delivered ids {:?}, DataFusion selects {:?}", w, other, want),
                    json!({"lane": 1, "case_index": idx, "seed": ctx.seed, "where": w, "constructs": t, "timestamp_type": if ts_typed {"Timestamp(ns)"} else {"Int64"},
                        "merge_timestamp": merge, "rows": rows.iter().map(|r| format!("{:?}", r)).collect::<Vec<_>>()}),
                );
            }
        }
        if idx % 9001 == 0 {
            out.sample(json!({"lane": 1, "where": w, "rows": rows.len(), "selected": want.len()}));
        }
    }
}

fn topic_ref(f: &TopicFilter, m: &BatchMetadata) -> bool {
    match f {
        TopicFilter::All => true,
        TopicFilter::Shard(s) => &m.shard_id == s,
        TopicFilter::Tenant(t) => m.tenant_id == *t,
        TopicFilter::Metrics(l) => m.metrics.iter().any(|x| l.contains(x)),
        TopicFilter::And(v) => v.iter().all(|x| topic_ref(x, m)),
        TopicFilter::Or(v) => v.iter().any(|x| topic_ref(x, m)),
    }
}

fn gen_topic(rng: &mut Rng, depth: u32) -> TopicFilter {
    if depth > 0 && rng.chance(1, 2) {
        let n = rng.usize(4);
        let v: Vec<TopicFilter> = (0..n).map(|_| gen_topic(rng, depth - 1)).collect();
        return if rng.chance(1, 2) { TopicFilter::And(v) } else { TopicFilter::Or(v) };
    }
    match rng.below(5) {
        0 => TopicFilter::All,
        1 => TopicFilter::Shard(format!("s{}", rng.below(3))),
        2 => TopicFilter::Tenant(rng.below(3) as u32),
        _ => TopicFilter::Metrics((0..rng.usize(3)).map(|_| ["cpu", "mem", "disk"][rng.usize(3)].to_string()).collect()),
    }
}

async fn lane3(ctx: &Ctx, out: &mut Outcome, total: u64) {
    for idx in ctx.my_cases(total) {
        let mut rng = ctx.rng("C18-l3", idx);
        let ch = TopicBroadcastChannel::new(16);
        let filter = gen_topic(&mut rng, 2);
        let mut rx = ch.subscribe(filter.clone()).await;
        let nb = 1 + rng.usize(4);
        let mut expect = vec![];
        for b in 0..nb {
            let md = BatchMetadata {
                shard_id: format!("s{}", rng.below(3)),
                tenant_id: rng.below(3) as u32,
                metrics: (0..rng.usize(3)).map(|_| ["cpu", "mem", "disk"][rng.usize(3)].to_string()).collect(),
            };
            let rows = vec![Row { id: (idx * 10 + b as u64) as i64, ts: 1, metric: "cpu".into(), vi: None, vf: None, host: None }];
            if topic_ref(&filter, &md) {
                expect.push(idx * 10 + b as u64);
            }
            let _ = ch.send(TopicBatch { batch: make_batch(&rows, false), metadata: md });
        }
        // the channel is closed by dropping the sender: the receiver drains what was sent and then ends
        // (no timing in the verdict; the 60 s timeout is a safety net whose firing is inconclusive)
        drop(ch);
        let mut got = vec![];
        loop {
            match tokio::time::timeout(Duration::from_secs(60), rx.recv()).await {
                Ok(Ok(b)) => got.extend(ids(&b)),
                Ok(Err(_)) => break,
                Err(_) => {
                    out.inconclusive("lane 3: a closed topic channel did not end within 60 s");
                    return;
                }
            }
        }
        out.eval();
        out.count("lane3.topic_subscriptions", 1);
        if matches!(filter, TopicFilter::And(_) | TopicFilter::Or(_)) {
            out.nontrivial(hash_str(&format!("{:?}|{}", filter, idx)));
        }
        if got != expect {
            out.violation(
                "C18/topic/delivery-differs-from-filter",
                &format!("topic filter {:?}: delivered batches {:?}, reference {:?}", filter, got, expect),
                json!({"lane": 3, "case_index": idx, "seed": ctx.seed}),
            );
        }
    }
}

fn lane2(ctx: &Ctx, out: &mut Outcome, total: u64) {
    for idx in ctx.my_cases(total) {
        let mut rng = ctx.rng("C18-l2", idx);
        let merge = clock::SIM_EPOCH_NS;
        let mut tags = vec![];
        let w = gen_where(&mut rng, 2, &mut tags);
        let filtered = rng.chance(1, 2);
        let nb = 2 + rng.usize(4);
        let batches: Vec<Vec<Row>> = (0..nb).map(|b| gen_rows(&mut rng, merge, (idx * 1000 + b as u64 * 50) as i64)).collect();
        let w2 = w.clone();
        let batches2 = batches.clone();
        // every other subscription runs against a catalog that refuses writes during some flushes: the chunk is
        // uploaded, its registration fails, write() returns the error and the rows go out with the next flush
        let flaky = rng.chance(1, 2);
        let fail_at: Vec<bool> = (0..nb).map(|b| flaky && b + 1 < nb && rng.chance(1, 3)).collect();
        let any_failed = fail_at.iter().any(|f| *f);
        let fail_at2 = fail_at.clone();
        let rt = tokio::runtime::Builder::new_current_thread().enable_all().build().unwrap();
        let res: Result<(Vec<Vec<u64>>, Vec<Vec<u64>>), String> = rt.block_on(async move {
            clock::freeze_wall(merge);
            let store = Arc::new(InMemory::new());
            let cat = Arc::new(util::FailSwitchStore { inner: Arc::new(InMemory::new()), failing: false.into(), failed: 0.into() });
            let meta: Arc<dyn MetadataClient> = if flaky { Arc::new(ObjectStoreMetadataClient::new(cat.clone(), ObjectStoreMetadataConfig::default())) } else { Arc::new(LocalMetadataClient::new()) };
            let ing = Arc::new(Ingester::new(crate::checks::c03::no_wal_ingester_config(), store.clone(), meta.clone(), crate::checks::c01::storage_config(), MetricSchema::default_metrics()));
            let mut node = QueryNode::new(crate::checks::c09::query_config(), store.clone(), meta.clone(), crate::checks::c01::storage_config()).await.map_err(|e| e.to_string())?;
            let sql = format!("SELECT * FROM metrics WHERE {}", w2);
            let mut rx = if filtered {
                let frx = ing.subscribe_filtered(TopicFilter::All).await;
                node = node.with_topic_filter(frx);
                node.query_stream_filtered(&sql).await.map_err(|e| format!("query_stream_filtered: {e}"))?
            } else {
                node.connect_broadcast(ing.subscribe());
                node.query_stream(&sql).await.map_err(|e| format!("query_stream: {e}"))?
            };
            let mut want: Vec<Vec<u64>> = vec![];
            for (bi, rows) in batches2.iter().enumerate() {
                let b = make_batch(rows, false);
                let r = reference(&b, &w2, merge, false).await?;
                if !r.is_empty() {
                    want.push(r);
                }
                if fail_at2[bi] {
                    cat.failing.store(true, std::sync::atomic::Ordering::SeqCst);
                    let r = ing.write(b).await;
                    cat.failing.store(false, std::sync::atomic::Ordering::SeqCst);
                    if r.is_ok() && cat.failed.load(std::sync::atomic::Ordering::SeqCst) == 0 {
                        return Err("setup: the write did not reach the catalog while it was refusing writes".into());
                    }
                } else {
                    ing.write(b).await.map_err(|e| format!("write: {e}"))?;
                }
            }
            // End of the live tail without any timing in the verdict: dropping the ingester closes the
            // broadcast channels, the streaming task forwards what is still queued and ends, the stream closes.
            drop(ing);
            let mut got: Vec<Vec<u64>> = vec![];
            loop {
                match tokio::time::timeout(Duration::from_secs(60), rx.recv()).await {
                    Ok(Some(Ok(b))) => {
                        if b.num_rows() > 0 {
                            got.push(ids(&b));
                        }
                    }
                    Ok(Some(Err(e))) => return Err(format!("stream error: {e}")),
                    Ok(None) => break,
                    Err(_) => return Err("setup: the stream did not end within 60 s after the ingester was dropped".to_string()),
                }
            }
            Ok((got, want))
        });
        out.eval();
        out.count("lane2.subscriptions", 1);
        let mut t = tags.clone();
        t.sort();
        t.dedup();
        match res {
            Err(e) => {
                if e.contains("reference") {
                    out.count("lane2.reference_rejected_sql", 1);
                } else {
                    out.count("lane2.setup_errors", 1);
                    out.note(&format!("lane2: {}", e.chars().take(160).collect::<String>()));
                }
            }
            Ok((got, want)) => {
                out.count("lane2.batches_flushed", nb as u64);
                if !want.is_empty() {
                    out.nontrivial(hash_str(&format!("l2|{}|{}", w, idx)));
                }
                if any_failed {
                    out.count("lane2.subscriptions_with_a_flush_whose_registration_failed", 1);
                }
                // a flush that is retried carries the rows of the failed one in front of its own, in one batch:
                // the property speaks of rows (each once, in flush order), so those histories are compared row by row
                let differs = if any_failed { got.concat() != want.concat() } else { got != want };
                if differs {
                    let cls = if any_failed {
                        "after-a-flush-whose-registration-failed"
                    } else if t.contains(&"OR") {
                        "disjunction"
                    } else if t.contains(&"int-literal-on-float-column") || t.contains(&"float-literal-on-int-column") {
                        "literal-type-differs-from-column-type"
                    } else if t.contains(&"float") {
                        "float-comparison"
                    } else {
                        "other"
                    };
                    out.violation(
                        &format!("C18/stream/{}", cls),
                        &format!("live tail for WHERE {} ({}{}): delivered {:?}, expected per flushed batch {:?}", w, if filtered { "topic-filtered receiver" } else { "legacy broadcast" },
                            if any_failed { format!("; catalog refused the registration during writes {:?}", fail_at.iter().enumerate().filter(|(_, f)| **f).map(|(i, _)| i).collect::<Vec<_>>()) } else { String::new() }, got, want),
                        json!({"lane": 2, "case_index": idx, "seed": ctx.seed, "where": w, "constructs": t, "registration_failed_at_write": fail_at, "batches": batches.iter().map(|b| b.iter().map(|r| format!("{:?}", r)).collect::<Vec<_>>()).collect::<Vec<_>>()}),
                    );
                }
            }
        }
    }
    let _ = rows::multiset(vec![]);
}


/// Rows of `batch_rows` forced to the live side of the merge point, regenerated until the
/// reference says at least one of them satisfies the WHERE clause (None if that never happens).
async fn matching_batch(rng: &mut Rng, w: &str, merge: i64, first_id: i64, ts: i64) -> Option<(RecordBatch, Vec<u64>)> {
    for _ in 0..40 {
        let mut rows = gen_rows(rng, merge, first_id);
        for r in rows.iter_mut() {
            r.ts = merge + 1000;
        }
        let b = make_batch(&rows, false);
        match reference(&b, w, merge, false).await {
            Ok(ids) if !ids.is_empty() => {
                // the WHERE clauses of this family never mention the timestamp
                for r in rows.iter_mut() {
                    r.ts = ts;
                }
                return Some((make_batch(&rows, false), ids));
            }
            Ok(_) => continue,
            Err(_) => return None,
        }
    }
    None
}

fn rids_of_message(text: &str) -> (String, Vec<u64>) {
    let v: serde_json::Value = serde_json::from_str(text).unwrap_or(serde_json::Value::Null);
    let ty = v.get("type").and_then(|t| t.as_str()).unwrap_or("?").to_string();
    let ids = v
        .get("data")
        .and_then(|d| d.as_array())
        .map(|rows| rows.iter().filter_map(|r| r.get("rid").and_then(|x| x.as_str()).and_then(|x| x.parse::<u64>().ok())).collect())
        .unwrap_or_default();
    (ty, ids)
}

fn lane4(ctx: &Ctx, out: &mut Outcome, total: u64) {
    use futures::{SinkExt, StreamExt};
    use tokio_tungstenite::tungstenite::Message;
    const HIST: i64 = 700_000;
    const PRE: i64 = 800_000;
    const POST: i64 = 900_000;
    for idx in ctx.my_cases(total) {
        let mut rng = ctx.rng("C18-l4", idx);
        let merge = clock::SIM_EPOCH_NS;
        let mut tags = vec![];
        let w = gen_where(&mut rng, 2, &mut tags);
        let nb = 2 + rng.usize(4);
        let batches: Vec<Vec<Row>> = (0..nb).map(|b| gen_rows(&mut rng, merge, (b as u64 * 50) as i64 + 1)).collect();
        let (w2, batches2) = (w.clone(), batches.clone());
        let mut rng2 = rng.fork(4);
        let rt = tokio::runtime::Builder::new_current_thread().enable_all().build().unwrap();
        // Err(("setup"|"skip", text)) are not verdicts
        let res: Result<(Vec<Vec<u64>>, Vec<Vec<u64>>, u64), (&'static str, String)> = rt.block_on(async move {
            clock::freeze_wall(merge);
            let setup = |e: String| ("setup", e);
            let store = Arc::new(InMemory::new());
            let meta = Arc::new(LocalMetadataClient::new());
            let ing = Arc::new(Ingester::new(crate::checks::c03::no_wal_ingester_config(), store.clone(), meta.clone(), crate::checks::c01::storage_config(), MetricSchema::default_metrics()));
            let mut node = QueryNode::new(crate::checks::c09::query_config(), store.clone(), meta.clone(), crate::checks::c01::storage_config()).await.map_err(|e| setup(e.to_string()))?;
            node.connect_broadcast(ing.subscribe());
            let frx = ing.subscribe_filtered(TopicFilter::All).await;
            let node = Arc::new(node.with_topic_filter(frx));
            let router = cardinalsin::api::build_http_router(ing.clone(), node.clone());
            let listener = tokio::net::TcpListener::bind("127.0.0.1:0").await.map_err(|e| setup(format!("bind: {e}")))?;
            let port = listener.local_addr().map_err(|e| setup(e.to_string()))?.port();
            tokio::spawn(async move {
                let _ = axum::serve(listener, router).await;
            });
            // a stored batch that satisfies the WHERE clause: the historical part answers with >= 1 message
            let Some((hist, _)) = matching_batch(&mut rng2, &w2, merge, HIST, merge - 1_000_000_000).await else {
                return Err(("skip", "no row of the generator satisfies this WHERE clause".to_string()));
            };
            ing.write(hist).await.map_err(|e| setup(format!("write: {e}")))?;
            let (mut ws, _) = tokio_tungstenite::connect_async(format!("ws://127.0.0.1:{}/api/v1/stream", port)).await.map_err(|e| setup(format!("connect: {e}")))?;
            let req = json!({"query": format!("SELECT * FROM metrics WHERE {}", w2), "live": true}).to_string();
            ws.send(Message::Text(req)).await.map_err(|e| setup(format!("send: {e}")))?;
            let watchdog = Duration::from_secs(20);
            // 1. first historical message: the historical query has been executed
            loop {
                match tokio::time::timeout(watchdog, ws.next()).await {
                    Ok(Some(Ok(Message::Text(t)))) => {
                        let (ty, ids) = rids_of_message(&t);
                        if ty == "error" {
                            return Err(("skip", format!("the server refused the query: {}", t.chars().take(120).collect::<String>())));
                        }
                        if std::env::var("CSVERIF_DEBUG").is_ok() {
                            eprintln!("hist msg: {}", t.chars().take(400).collect::<String>());
                        }
                        // (string columns of the historical answer are rendered as "Utf8View" by the
                        // transport, so the historical rows are not identified; any data message will do:
                        // nothing else can arrive before the first probe batch is written)
                        let _ = ids;
                        if ty == "data" {
                            break;
                        }
                    }
                    Ok(Some(Ok(_))) => continue,
                    Ok(Some(Err(e))) => return Err(("setup", format!("socket: {e}"))),
                    Ok(None) => return Err(("setup", "socket closed before the historical answer".into())),
                    Err(_) => return Err(("setup", "no historical answer within 20 s".into())),
                }
            }
            // 2. probe batches until one arrives over the live path: the subscription is established
            let mut subscribed = false;
            let mut received: Vec<(String, Vec<u64>)> = vec![];
            for k in 0..400i64 {
                let Some((b, _)) = matching_batch(&mut rng2, &w2, merge, PRE + k * 20, merge + 1000).await else {
                    return Err(("skip", "no probe batch".into()));
                };
                ing.write(b).await.map_err(|e| setup(format!("write: {e}")))?;
                if let Ok(Some(Ok(Message::Text(t)))) = tokio::time::timeout(Duration::from_millis(25), ws.next()).await {
                    let (ty, ids) = rids_of_message(&t);
                    if ids.iter().any(|i| (*i as i64) >= PRE && (*i as i64) < POST) {
                        subscribed = true;
                        break;
                    }
                    received.push((ty, ids));
                }
            }
            if !subscribed {
                return Err(("setup", "no probe batch arrived over the live path (400 probes)".into()));
            }
            // 3. the observed window
            let mut want: Vec<Vec<u64>> = vec![];
            let mut rows_sent = 0u64;
            for rows in &batches2 {
                let b = make_batch(rows, false);
                rows_sent += rows.len() as u64;
                let r = reference(&b, &w2, merge, false).await.map_err(|e| ("skip", format!("reference: {e}")))?;
                if !r.is_empty() {
                    want.push(r);
                }
                ing.write(b).await.map_err(|e| setup(format!("write: {e}")))?;
            }
            // 4. closing sentinel
            let Some((b, _)) = matching_batch(&mut rng2, &w2, merge, POST, merge + 1000).await else {
                return Err(("skip", "no closing batch".into()));
            };
            ing.write(b).await.map_err(|e| setup(format!("write: {e}")))?;
            let mut got: Vec<Vec<u64>> = vec![];
            loop {
                match tokio::time::timeout(watchdog, ws.next()).await {
                    Ok(Some(Ok(Message::Text(t)))) => {
                        let (_, ids) = rids_of_message(&t);
                        if ids.iter().any(|i| (*i as i64) >= POST) {
                            break;
                        }
                        let mine: Vec<u64> = ids.into_iter().filter(|i| (*i as i64) < HIST).collect();
                        if !mine.is_empty() {
                            got.push(mine);
                        }
                    }
                    Ok(Some(Ok(_))) => continue,
                    Ok(Some(Err(e))) => return Err(("setup", format!("socket: {e}"))),
                    Ok(None) => return Err(("setup", "socket closed before the closing sentinel".into())),
                    Err(_) => return Err(("setup", "closing sentinel not delivered within 20 s".into())),
                }
            }
            let _ = ws.close(None).await;
            Ok((got, want, rows_sent))
        });
        drop(rt);
        out.eval();
        out.count("lane4.websocket_subscriptions", 1);
        match res {
            Err(("skip", e)) => {
                out.count("lane4.skipped", 1);
                out.note(&format!("lane4 skipped a case: {}", e.chars().take(120).collect::<String>()));
            }
            Err((_, e)) => {
                out.count("lane4.setup_errors", 1);
                out.note(&format!("lane4: {}", e.chars().take(160).collect::<String>()));
            }
            Ok((got, want, rows_sent)) => {
                out.count("lane4.batches_flushed", nb as u64);
                out.count("lane4.rows_flushed", rows_sent);
                out.count("lane4.rows_expected", want.iter().map(|v| v.len() as u64).sum());
                out.count("lane4.rows_delivered", got.iter().map(|v| v.len() as u64).sum());
                if !want.is_empty() && want.iter().map(|v| v.len() as u64).sum::<u64>() < rows_sent {
                    out.nontrivial(hash_str(&format!("l4|{}|{}", w, idx)));
                }
                if got != want {
                    let extra = got.iter().flatten().filter(|i| !want.iter().flatten().any(|j| j == *i)).count();
                    let missing = want.iter().flatten().filter(|i| !got.iter().flatten().any(|j| j == *i)).count();
                    let cls = if extra > 0 && missing == 0 {
                        "rows-not-satisfying-the-where-clause-delivered"
                    } else if missing > 0 && extra == 0 {
                        "matching-rows-not-delivered"
                    } else if extra == 0 && missing == 0 {
                        "order-or-multiplicity"
                    } else {
                        "other"
                    };
                    out.violation(
                        &format!("C18/websocket/{}", cls),
                        &format!("WebSocket live tail for WHERE {}: delivered {:?}, expected per flushed batch {:?}", w, got, want),
                        json!({"lane": 4, "case_index": idx, "seed": ctx.seed, "where": w, "batches": batches.iter().map(|b| b.iter().map(|r| format!("{:?}", r)).collect::<Vec<_>>()).collect::<Vec<_>>()}),
                    );
                }
            }
        }
    }
}


/// Lane 5: real ingester (flush on every write) -> subscribe_filtered(filter) -> recv. Each flushed
/// batch carries 1-12 rows with up to three metric names; its topic metadata is what the ingester
/// derives: its own tenant id, the shard id of the batch, the set of metric names in the batch.
fn lane5(ctx: &Ctx, out: &mut Outcome, total: u64) {
    for idx in ctx.my_cases(total) {
        let mut rng = ctx.rng("C18-l5", idx);
        let merge = clock::SIM_EPOCH_NS;
        let nb = 2 + rng.usize(5);
        let batches: Vec<Vec<Row>> = (0..nb).map(|b| gen_rows(&mut rng, merge, (b as u64 * 50) as i64 + 1)).collect();
        // the metadata the ingester must derive
        fn md_of(rows: &Vec<Row>) -> BatchMetadata {
            let key = cardinalsin::sharding::ShardKey::new(0, &rows[0].metric, rows[0].ts);
            let mut metrics: Vec<String> = rows.iter().map(|r| r.metric.clone()).collect();
            metrics.sort();
            metrics.dedup();
            BatchMetadata { shard_id: format!("shard-{:x}", u64::from_be_bytes(key.to_bytes()[0..8].try_into().unwrap_or([0u8; 8]))), tenant_id: 0, metrics }
        }
        let mds: Vec<BatchMetadata> = batches.iter().map(md_of).collect();
        // a filter built from values that occur (and some that do not)
        fn gen_f(rng: &mut Rng, mds: &[BatchMetadata], depth: u32) -> TopicFilter {
            if depth > 0 && rng.chance(1, 3) {
                let n = 1 + rng.usize(3);
                let v: Vec<TopicFilter> = (0..n).map(|_| gen_f(rng, mds, depth - 1)).collect();
                return if rng.chance(1, 2) { TopicFilter::And(v) } else { TopicFilter::Or(v) };
            }
            match rng.below(8) {
                0 => TopicFilter::All,
                1 => TopicFilter::Shard(mds[rng.usize(mds.len())].shard_id.clone()),
                2 => TopicFilter::Shard("shard-0".into()),
                3 => TopicFilter::Tenant(*rng.pick(&[0u32, 0, 1])),
                _ => {
                    let n = 1 + rng.usize(2);
                    TopicFilter::Metrics((0..n).map(|_| ["cpu", "mem", "disk", "net"][rng.usize(4)].to_string()).collect())
                }
            }
        }
        let filter = gen_f(&mut rng, &mds, 2);
        // every other subscription: the catalog refuses writes during some flushes; the rows of such a flush go out
        // with the next one, as one batch whose metadata is that of the combined rows
        let flaky = rng.chance(1, 2);
        let fail_at: Vec<bool> = (0..nb).map(|b| flaky && b + 1 < nb && rng.chance(1, 3)).collect();
        let any_failed = fail_at.iter().any(|f| *f);
        let (units, mds): (Vec<Vec<Row>>, Vec<BatchMetadata>) = if any_failed {
            let mut units: Vec<Vec<Row>> = vec![];
            let mut carry: Vec<Row> = vec![];
            for (bi, rows) in batches.iter().enumerate() {
                carry.extend(rows.iter().cloned());
                if !fail_at[bi] {
                    units.push(std::mem::take(&mut carry));
                }
            }
            let m = units.iter().map(|rows| md_of(rows)).collect();
            (units, m)
        } else {
            (batches.clone(), mds)
        };
        let expect: Vec<Vec<u64>> = units.iter().zip(mds.iter()).filter(|(_, md)| topic_ref(&filter, md)).map(|(rows, _)| rows.iter().map(|r| r.id as u64).collect()).collect();
        let (f2, b2, fail_at2) = (filter.clone(), batches.clone(), fail_at.clone());
        let rt = tokio::runtime::Builder::new_current_thread().enable_all().build().unwrap();
        let res: Result<Vec<Vec<u64>>, String> = rt.block_on(async move {
            clock::freeze_wall(merge);
            let store = Arc::new(InMemory::new());
            let cat = Arc::new(util::FailSwitchStore { inner: Arc::new(InMemory::new()), failing: false.into(), failed: 0.into() });
            let meta: Arc<dyn MetadataClient> = if flaky { Arc::new(ObjectStoreMetadataClient::new(cat.clone(), ObjectStoreMetadataConfig::default())) } else { Arc::new(LocalMetadataClient::new()) };
            let ing = Arc::new(Ingester::new(crate::checks::c03::no_wal_ingester_config(), store.clone(), meta.clone(), crate::checks::c01::storage_config(), MetricSchema::default_metrics()));
            let mut rx = ing.subscribe_filtered(f2).await;
            for (bi, rows) in b2.iter().enumerate() {
                if fail_at2[bi] {
                    cat.failing.store(true, std::sync::atomic::Ordering::SeqCst);
                    let r = ing.write(make_batch(rows, false)).await;
                    cat.failing.store(false, std::sync::atomic::Ordering::SeqCst);
                    if r.is_ok() && cat.failed.load(std::sync::atomic::Ordering::SeqCst) == 0 {
                        return Err("setup: the write did not reach the catalog while it was refusing writes".into());
                    }
                } else {
                    ing.write(make_batch(rows, false)).await.map_err(|e| format!("write: {e}"))?;
                }
            }
            drop(ing); // closes the channel: recv ends with Closed after what is queued
            let mut got = vec![];
            loop {
                match tokio::time::timeout(Duration::from_secs(60), rx.recv()).await {
                    Ok(Ok(b)) => got.push(ids(&b)),
                    Ok(Err(tokio::sync::broadcast::error::RecvError::Closed)) => break,
                    Ok(Err(tokio::sync::broadcast::error::RecvError::Lagged(n))) => return Err(format!("setup: receiver lagged by {n}")),
                    Err(_) => return Err("setup: the channel did not close within 60 s after the ingester was dropped".into()),
                }
            }
            Ok(got)
        });
        out.eval();
        out.count("lane5.subscriptions", 1);
        match res {
            Err(e) => {
                out.count("lane5.setup_errors", 1);
                out.note(&format!("lane5: {}", e.chars().take(160).collect::<String>()));
            }
            Ok(got) => {
                out.count("lane5.batches_flushed", nb as u64);
                out.count("lane5.batches_expected", expect.len() as u64);
                if !expect.is_empty() && expect.len() < nb {
                    out.nontrivial(hash_str(&format!("l5|{:?}|{}", filter, idx)));
                }
                if mds.iter().any(|m| m.metrics.len() > 1) {
                    out.count("lane5.subscriptions_with_a_multi_metric_batch", 1);
                }
                if any_failed {
                    out.count("lane5.subscriptions_with_a_flush_whose_registration_failed", 1);
                }
                if got != expect {
                    out.violation(
                        if any_failed { "C18/topic/end-to-end-delivery-after-a-flush-whose-registration-failed" } else { "C18/topic/end-to-end-delivery-differs-from-filter" },
                        &format!("topic filter {:?} on batches with metadata {:?}: delivered {:?}, expected {:?}", filter, mds.iter().map(|m| format!("{}|{}|{:?}", m.tenant_id, m.shard_id, m.metrics)).collect::<Vec<_>>(), got, expect),
                        json!({"lane": 5, "case_index": idx, "seed": ctx.seed, "registration_failed_at_write": fail_at}),
                    );
                }
            }
        }
    }
}
