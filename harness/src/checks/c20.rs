//! C20 — compaction converges and levels only move up.
//!
//! Random initial catalogs (counts, sizes, time spread, pre-levelled by earlier
//! cycles under another configuration), random thresholds / target sizes /
//! level limits, a single compactor on either backend; cycles are repeated.
//! Observed at the client boundary (RecordingMeta) and in the catalog versions:
//!   * candidate groups returned by one call are pairwise disjoint;
//!   * within one cycle no chunk is a source of two merges;
//!   * all sources of a merge are at the same level (the one being compacted);
//!   * a path's level never decreases from one catalog version to the next;
//!   * bounded progress: a fixed point (a cycle that changes nothing) is reached
//!     within initial-chunk-count + 2 cycles (every effective cycle removes >= 1 chunk).

use crate::checks::c01::storage_config;
use crate::checks::c02::committed_puts;
use crate::checks::c03::{build_dataset, compactor_config};
use crate::clock;
use crate::outcome::Outcome;
use crate::rng::{hash_str, Rng};
use crate::sim::{self, Ctl};
use crate::simmeta::RecMeta;
use crate::Ctx;
use cardinalsin::compactor::Compactor;
use cardinalsin::metadata::{LocalMetadataClient, MetadataCatalog, MetadataClient, ObjectStoreMetadataClient, ObjectStoreMetadataConfig};
use cardinalsin::sharding::{HotShardConfig, ShardMonitor};
use serde_json::{json, Value};
use std::collections::{BTreeMap, BTreeSet, HashMap};
use std::sync::Arc;

pub fn run(ctx: &Ctx) -> Outcome {
    let mut out = Outcome::new(
        "C20",
        "case = one initial catalog (3-24 chunks over 1-3 hour buckets, optionally pre-levelled by cycles under a different configuration) + one \
         configuration (merge threshold, level target sizes, level limit), cycles repeated up to the bound; non-trivial = at least two merges \
         happened before the fixed point, distinct by hash of (catalog shape, configuration)",
    );
    out.assume("dataset no longer written; single compactor; no faults (C03 covers faults and concurrency)");
    let cases: u64 = if ctx.thorough { 14 * 10_000 } else { 4000 };
    for idx in ctx.my_cases(cases) {
        let mut rng = ctx.rng("C20", idx);
        one_case(ctx, &mut out, &mut rng, idx);
    }
    clock::unfreeze_wall();
    out
}

struct CaseResult {
    events: Vec<crate::sim::Event>,
    snapshots: Vec<Vec<String>>, // chunk paths after each cycle (index 0 = initial)
    cycle_results: Vec<String>,
    setup_err: Option<String>,
}

fn one_case(ctx: &Ctx, out: &mut Outcome, rng: &mut Rng, idx: u64) {
    let local_backend = rng.chance(1, 3);
    let nchunks = 3 + rng.usize(22);
    let nbuckets = 1 + rng.range(0, 2);
    let pre_cycles = if rng.chance(1, 2) { 1 + rng.usize(2) } else { 0 };
    let pre_cfg = compactor_config(rng);
    let mut cfg = compactor_config(rng);
    // "all merge thresholds": now and then the degenerate ones, where a lone L0 chunk forms a group of its own
    if rng.chance(1, 6) {
        cfg.l0_merge_threshold = rng.usize(2);
    }
    // ... and the degenerate target sizes / level limits
    if rng.chance(1, 8) {
        cfg.l1_target_size = *rng.pick(&[0usize, 1, usize::MAX]);
        cfg.l2_target_size = *rng.pick(&[0usize, 1, usize::MAX]);
    }
    if rng.chance(1, 8) {
        cfg.max_levels = rng.usize(2);
    }
    if rng.chance(1, 16) {
        cfg.l0_merge_threshold = usize::MAX;
    }
    let extra_chunks = if pre_cycles > 0 { rng.usize(8) } else { 0 };
    // one case in three starts with a lease left behind by another compactor node (crashed, or simply slower): it
    // covers one of the catalog's own L0 groups or a few arbitrary chunks and is given up after `lease_hold` cycles
    let foreign_lease = rng.chance(1, 3);
    let lease_hold = 1 + rng.usize(2);
    let lease_on_group = rng.chance(2, 3);
    let mut lease_rng = rng.fork(2);
    let mut data_rng = rng.fork(1);
    let cfg_desc = format!(
        "backend={} chunks={}+{} buckets={} pre_cycles={} l0_threshold={} l1_target={} l2_target={} max_levels={} foreign_lease={}",
        if local_backend { "local" } else { "object-store" },
        nchunks,
        extra_chunks,
        nbuckets,
        pre_cycles,
        cfg.l0_merge_threshold,
        cfg.l1_target_size,
        cfg.l2_target_size,
        cfg.max_levels,
        if foreign_lease { format!("held-for-{}-cycles", lease_hold) } else { "none".to_string() }
    );
    let cfg2 = cfg.clone();
    let res: CaseResult = sim::run_sim(async move {
        clock::freeze_wall(clock::SIM_EPOCH_NS);
        let ctl = Ctl::new();
        let local = Arc::new(LocalMetadataClient::new());
        let base: Arc<dyn MetadataClient> = if local_backend {
            local.clone()
        } else {
            Arc::new(ObjectStoreMetadataClient::new(ctl.store("c"), ObjectStoreMetadataConfig::default()))
        };
        let now = clock::SIM_EPOCH_NS - 60_000_000_000;
        if let Err(e) = build_dataset(ctl.store("seed"), base.clone(), &mut data_rng, nchunks, nbuckets, idx as i64 * 100_000, false, now).await {
            return CaseResult { events: vec![], snapshots: vec![], cycle_results: vec![], setup_err: Some(e) };
        }
        let monitor = Arc::new(ShardMonitor::new(HotShardConfig::default()));
        if pre_cycles > 0 {
            let pre_meta: Arc<dyn MetadataClient> = RecMeta::new(base.clone(), ctl.clone(), "pre.meta");
            let pre = Compactor::new(pre_cfg, ctl.store("pre"), pre_meta, storage_config(), monitor.clone());
            for _ in 0..pre_cycles {
                let _ = pre.run_compaction_cycle().await;
            }
            let _ = build_dataset(ctl.store("seed"), base.clone(), &mut data_rng, extra_chunks, nbuckets, idx as i64 * 100_000 + 50_000, false, now).await;
        }
        let list = |m: Arc<dyn MetadataClient>| async move {
            let mut p: Vec<String> = m.list_chunks().await.map(|v| v.into_iter().map(|e| e.chunk_path).collect()).unwrap_or_default();
            p.sort();
            p
        };
        let mut foreign: Option<String> = None;
        if foreign_lease {
            let mut chunks: Vec<String> = vec![];
            if lease_on_group {
                if let Ok(groups) = base.get_l0_candidates(cfg2.l0_merge_threshold.max(1)).await {
                    if !groups.is_empty() {
                        chunks = groups[lease_rng.usize(groups.len())].clone();
                    }
                }
            }
            if chunks.is_empty() {
                let all = list(base.clone()).await;
                let n = 1 + lease_rng.usize(3);
                for _ in 0..n.min(all.len()) {
                    let p = all[lease_rng.usize(all.len())].clone();
                    if !chunks.contains(&p) {
                        chunks.push(p);
                    }
                }
            }
            if !chunks.is_empty() {
                if let Ok(l) = base.acquire_lease("another-compactor", &chunks, 0).await {
                    ctl.mark("c", "FOREIGN_LEASE", &serde_json::to_string(&chunks).unwrap_or_default(), &l.lease_id);
                    foreign = Some(l.lease_id);
                }
            }
        }
        ctl.mark("c", "MAIN_BEGIN", "", "");
        let start = 0;
        let rec: Arc<dyn MetadataClient> = RecMeta::new(base.clone(), ctl.clone(), "c.meta");
        let comp = Compactor::new(cfg2, ctl.store("c"), rec, storage_config(), monitor);
        let mut snapshots = vec![list(base.clone()).await];
        let bound = snapshots[0].len() + 2 + if foreign.is_some() { lease_hold } else { 0 };
        let mut cycle_results = vec![];
        for c in 0..bound + 1 {
            if c == lease_hold {
                if let Some(id) = foreign.take() {
                    let _ = base.fail_lease(&id).await;
                    ctl.mark("c", "FOREIGN_LEASE_GIVEN_UP", &id, "");
                }
            }
            ctl.mark("c", "CYCLE_BEGIN", &format!("{}", c), "");
            let r = comp.run_compaction_cycle().await;
            cycle_results.push(match r {
                Ok(()) => "ok".to_string(),
                Err(e) => format!("err: {}", e),
            });
            let s = list(base.clone()).await;
            let fixed = snapshots.last() == Some(&s);
            snapshots.push(s);
            if fixed && foreign.is_none() {
                break;
            }
        }
        CaseResult { events: ctl.events_from(start), snapshots, cycle_results, setup_err: None }
    });
    if let Some(e) = res.setup_err {
        out.inconclusive(&format!("case {idx}: dataset: {e}"));
        return;
    }
    out.eval();
    let witness = |extra: Value| {
        json!({"case_index": idx, "seed": ctx.seed, "config": cfg_desc, "cycle_results": res.cycle_results,
            "chunks_after_each_cycle": res.snapshots.iter().map(|s| s.len()).collect::<Vec<_>>(), "detail": extra,
            "catalog_calls": res.events.iter().filter(|e| e.op.starts_with("META:") && !e.call).map(|e| format!("{} {} -> {}", e.op, e.path, e.result.chars().take(300).collect::<String>())).collect::<Vec<_>>()})
    };
    let initial = res.snapshots[0].len();
    let cycles = res.snapshots.len() - 1;
    out.count("cycles_run", cycles as u64);
    out.max("max:cycles_to_fixed_point", cycles as u64);
    // ---- bounded progress
    let reached = res.snapshots.len() >= 2 && res.snapshots[res.snapshots.len() - 1] == res.snapshots[res.snapshots.len() - 2];
    if !reached {
        out.violation(
            "C20/no-fixed-point-within-bound",
            &format!("{} cycles on {} initial chunks and the catalog still changes", cycles, initial),
            witness(json!(null)),
        );
    }
    for w in res.snapshots.windows(2) {
        if w[1].len() > w[0].len() {
            // odd on a dataset that is not written to, but not what C20 states: an observation
            out.count("cycles_that_increased_the_chunk_count", 1);
        }
    }
    // ---- per cycle: candidate groups disjoint, no source twice, sources at one level
    let mut level: HashMap<String, u32> = HashMap::new(); // model levels, learned from the catalog where visible
    if !local_backend {
        // the catalog's own levels, from every committed version (the max+1 model below only fills in what no
        // version shows - which level a merged chunk gets is C03's clause, not C20's)
        for (_seq, _actor, payload, _m, _e) in &committed_puts(&res.events, "catalog.json") {
            if let Ok(cat) = serde_json::from_slice::<MetadataCatalog>(payload) {
                for (p, c) in &cat.chunks {
                    level.entry(p.clone()).or_insert(c.level);
                }
            }
        }
    }
    let mut merges_total = 0u64;
    let mut used_in_cycle: BTreeSet<String> = BTreeSet::new();
    let mut leased_in_cycle: BTreeSet<String> = BTreeSet::new();
    let mut cycle_no = 0;
    let mut main = false;
    for e in &res.events {
        if e.op == "MAIN_BEGIN" {
            main = true;
        }
        if !main {
            // pre-levelling phase: only learn the levels
            if !e.call && e.op == "META:swap_compacted_chunk" && e.result.starts_with("ok|") {
                let f: Vec<&str> = e.path.splitn(2, '|').collect();
                let sources: Vec<String> = serde_json::from_str(f[0]).unwrap_or_default();
                let target = f.get(1).map(|s| s.split('|').next().unwrap_or("").to_string()).unwrap_or_default();
                let nl = sources.iter().map(|s| *level.get(s).unwrap_or(&0)).max().unwrap_or(0) + 1;
                level.entry(target).or_insert(nl);
            }
            continue;
        }
        if e.op == "CYCLE_BEGIN" {
            used_in_cycle.clear();
            leased_in_cycle.clear();
            cycle_no += 1;
        }
        if e.call || !e.op.starts_with("META:") {
            continue;
        }
        if (e.op == "META:get_l0_candidates" || e.op == "META:get_level_candidates") && e.result.starts_with("ok|") {
            if let Ok(groups) = serde_json::from_str::<Vec<Vec<String>>>(&e.result[3..]) {
                let mut seen = BTreeSet::new();
                for g in &groups {
                    for p in g {
                        if !seen.insert(p.clone()) {
                            out.violation(
                                "C20/candidate-groups-overlap",
                                &format!("{}({}) returned {} in two groups", e.op, e.path, p),
                                witness(json!({"groups": groups})),
                            );
                        }
                    }
                }
                out.count("candidate_calls_checked", 1);
            }
        }
        if e.op == "META:acquire_lease" && e.result.starts_with("ok|") {
            // a granted lease is a group the cycle selected for merging
            let f: Vec<&str> = e.path.splitn(2, '|').collect();
            let rest = f.get(1).copied().unwrap_or("");
            let chunks: Vec<String> = rest.rfind('|').and_then(|i| serde_json::from_str(&rest[..i]).ok()).unwrap_or_default();
            out.count("groups_selected", 1);
            for c in &chunks {
                if !leased_in_cycle.insert(c.clone()) {
                    out.violation(
                        "C20/chunk-in-two-groups-of-one-cycle",
                        &format!("cycle {}: {} is in two groups the compactor took a lease on", cycle_no, c),
                        witness(json!({"group": chunks})),
                    );
                }
            }
        }
        if e.op == "META:swap_compacted_chunk" && e.result.starts_with("ok|") {
            merges_total += 1;
            let f: Vec<&str> = e.path.splitn(2, '|').collect();
            let sources: Vec<String> = serde_json::from_str(f[0]).unwrap_or_default();
            let target = f.get(1).map(|s| s.split('|').next().unwrap_or("").to_string()).unwrap_or_default();
            for s in &sources {
                if !used_in_cycle.insert(s.clone()) {
                    out.violation(
                        "C20/chunk-in-two-merges-of-one-cycle",
                        &format!("cycle {}: {} is a source of two merges", cycle_no, s),
                        witness(json!(null)),
                    );
                }
            }
            let lv: BTreeSet<u32> = sources.iter().map(|s| *level.get(s).unwrap_or(&0)).collect();
            if lv.len() > 1 {
                out.violation(
                    "C20/merge-mixes-levels",
                    &format!("cycle {}: merge of {:?} combines levels {:?}", cycle_no, sources, lv),
                    witness(json!(null)),
                );
            }
            let nl = lv.iter().max().copied().unwrap_or(0) + 1;
            level.entry(target).or_insert(nl);
        }
    }
    out.count("merges_observed", merges_total);
    if res.events.iter().any(|e| e.op == "FOREIGN_LEASE") {
        out.count("cases_starting_with_a_lease_held_by_another_compactor", 1);
        let refused = res.events.iter().filter(|e| !e.call && e.op == "META:acquire_lease" && !e.result.starts_with("ok|")).count() as u64;
        out.count("groups_refused_because_of_the_other_compactors_lease", refused);
    }
    // ---- levels never decrease across catalog versions (object-store backend)
    if !local_backend {
        let puts = committed_puts(&res.events, "catalog.json");
        let mut last: BTreeMap<String, u32> = BTreeMap::new();
        // cross-check the level model against the catalog's own levels
        if let Some((_, _, payload, _, _)) = puts.last() {
            if let Ok(cat) = serde_json::from_slice::<MetadataCatalog>(payload) {
                for (p, c) in &cat.chunks {
                    let m = *level.get(p).unwrap_or(&0);
                    if m != c.level {
                        out.count("levels_differing_from_the_max_plus_one_model", 1);
                    }
                }
            }
        }
        for (seq, _actor, payload, _m, _e) in &puts {
            if let Ok(cat) = serde_json::from_slice::<MetadataCatalog>(payload) {
                for (p, c) in &cat.chunks {
                    if let Some(old) = last.get(p) {
                        if c.level < *old {
                            out.violation(
                                "C20/level-decreased",
                                &format!("{} went from level {} to {} (catalog version at seq {})", p, old, c.level, seq),
                                witness(json!(null)),
                            );
                        }
                    }
                    last.insert(p.clone(), c.level);
                }
                out.count("catalog_versions_checked", 1);
            }
        }
    }
    if merges_total >= 2 {
        out.nontrivial(hash_str(&format!("{}|{:?}", cfg_desc, res.snapshots.iter().map(|s| s.len()).collect::<Vec<_>>())));
    }
    if idx < 3 {
        out.sample(json!({"case_index": idx, "config": cfg_desc, "chunks_after_each_cycle": res.snapshots.iter().map(|s| s.len()).collect::<Vec<_>>(),
            "merges": merges_total, "cycle_results": res.cycle_results}));
    }
}
