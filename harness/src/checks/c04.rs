//! C04 — query answers equal a full scan of everything ingested.
//!
//! Differential oracle: the same SQL text on a fresh DataFusion SessionContext
//! whose `metrics` is a MemTable of ALL ingested rows (same engine version, so
//! what differs is exactly cardinalsin's time-index pruning, predicate
//! pushdown, per-query registration, caching). Rows are compared by value and
//! by column name (physical encodings never enter the comparison).
//! Datasets are materialised in several chunk layouts, queried cold and warm,
//! before and after compaction cycles, on both catalog backends, with and
//! without adaptive indexing. Queries come from a grammar `W AND P` where W
//! confines the timestamp to a finite window; each query carries its shape
//! signature (set of constructs) for the violation signature.

use crate::checks::c01::storage_config;
use crate::clock;
use crate::outcome::Outcome;
use crate::rng::{hash_str, Rng};
use crate::rows::{self, RowSpec, SchemaKind};
use crate::Ctx;
use arrow_array::RecordBatch;
use cardinalsin::adaptive_index::{AdaptiveIndexConfig, AdaptiveIndexController};
use cardinalsin::compactor::{Compactor, CompactorConfig};
use cardinalsin::ingester::{Ingester, IngesterConfig};
use cardinalsin::metadata::{LocalMetadataClient, MetadataClient, ObjectStoreMetadataClient, ObjectStoreMetadataConfig, TimeRange};
use cardinalsin::query::QueryNode;
use cardinalsin::schema::MetricSchema;
use cardinalsin::sharding::{HotShardConfig, ShardMonitor};
use datafusion::prelude::SessionContext;
use object_store::memory::InMemory;
use serde_json::json;
use std::sync::Arc;
use std::time::Duration;

const H: i64 = 3_600_000_000_000;
const S: i64 = 1_000_000_000;

fn gen_rows(rng: &mut Rng, now: i64, first_id: i64) -> Vec<RowSpec> {
    let n = 20 + rng.usize(120);
    // mostly recent data; a sixth of the datasets lie around the epoch (pre-1970 rows have negative timestamps)
    let base_hour = if rng.chance(1, 6) { rng.range(-2, 3) * H } else { now / H * H - *rng.pick(&[0i64, 0, 2, 30]) * H };
    (0..n)
        .map(|i| {
            let hour = base_hour - rng.range(0, 4) * H;
            let off = *rng.pick(&[0i64, 1, -1, H - 1, H / 2, 12_345, 999_999_999, 1_800 * S]);
            let mut ts = hour + off;
            if ts > now {
                ts = now - rng.range(0, 50 * S);
            }
            RowSpec {
                id: first_id + i as i64,
                ts,
                metric: format!("m{}", rng.below(3)),
                host: if rng.chance(1, 5) { None } else { Some(format!("h{}", rng.below(3))) },
                value: (first_id + i as i64) as f64,
            }
        })
        .collect()
}

fn ts_lit(rng: &mut Rng, v: i64, typed: bool, now: i64, tags: &mut Vec<&'static str>) -> String {
    if typed {
        match rng.below(5) {
            0 | 1 => {
                tags.push("timestamp-literal");
                let dt = chrono::DateTime::from_timestamp_nanos(v);
                format!("TIMESTAMP '{}'", dt.format("%Y-%m-%dT%H:%M:%S%.9fZ"))
            }
            2 => {
                tags.push("to_timestamp_nanos");
                format!("to_timestamp_nanos({})", v)
            }
            3 => {
                tags.push("now-relative");
                let d = now - v; // v = now - d
                if d >= 0 {
                    format!("now() - INTERVAL '{} nanoseconds'", d)
                } else {
                    format!("now() + INTERVAL '{} nanoseconds'", -d)
                }
            }
            _ => {
                tags.push("arrow_cast");
                format!("arrow_cast({}, 'Timestamp(Nanosecond, Some(\"UTC\"))')", v)
            }
        }
    } else {
        tags.push("int-literal");
        format!("{}", v)
    }
}

/// One window constraint on the timestamp. Returns sql.
fn gen_window(rng: &mut Rng, rows_: &[RowSpec], typed: bool, now: i64, tags: &mut Vec<&'static str>) -> String {
    let pick = |rng: &mut Rng| -> i64 {
        let r = &rows_[rng.usize(rows_.len())];
        r.ts + *rng.pick(&[0i64, 0, 1, -1, H, -H, 600 * S])
    };
    let (a, b) = {
        let (x, y) = (pick(rng), pick(rng));
        (x.min(y), x.max(y))
    };
    match rng.below(8) {
        0 => {
            tags.push("closed");
            format!("timestamp >= {} AND timestamp <= {}", ts_lit(rng, a, typed, now, tags), ts_lit(rng, b, typed, now, tags))
        }
        1 => {
            tags.push("half-open");
            format!("timestamp > {} AND timestamp < {}", ts_lit(rng, a, typed, now, tags), ts_lit(rng, b, typed, now, tags))
        }
        2 => {
            tags.push("reversed-operands");
            format!("{} <= timestamp AND {} > timestamp", ts_lit(rng, a, typed, now, tags), ts_lit(rng, b, typed, now, tags))
        }
        3 => {
            tags.push("between");
            format!("timestamp BETWEEN {} AND {}", ts_lit(rng, a, typed, now, tags), ts_lit(rng, b, typed, now, tags))
        }
        4 => {
            tags.push("equality");
            let x = rows_[rng.usize(rows_.len())].ts;
            format!("timestamp = {}", ts_lit(rng, x, typed, now, tags))
        }
        5 => {
            tags.push("or-of-equalities");
            let x = rows_[rng.usize(rows_.len())].ts;
            let y = rows_[rng.usize(rows_.len())].ts;
            format!("(timestamp = {} OR timestamp = {})", ts_lit(rng, x, typed, now, tags), ts_lit(rng, y, typed, now, tags))
        }
        6 => {
            tags.push("or-of-windows");
            let (c, d) = {
                let (x, y) = (pick(rng), pick(rng));
                (x.min(y), x.max(y))
            };
            format!(
                "((timestamp >= {} AND timestamp <= {}) OR (timestamp >= {} AND timestamp <= {}))",
                ts_lit(rng, a, typed, now, tags),
                ts_lit(rng, b, typed, now, tags),
                ts_lit(rng, c, typed, now, tags),
                ts_lit(rng, d, typed, now, tags)
            )
        }
        _ => {
            tags.push("negated-bounds");
            format!("NOT (timestamp < {}) AND NOT (timestamp > {})", ts_lit(rng, a, typed, now, tags), ts_lit(rng, b, typed, now, tags))
        }
    }
}

fn gen_pred(rng: &mut Rng, rows_: &[RowSpec], typed: bool, now: i64, tags: &mut Vec<&'static str>) -> Option<String> {
    match rng.below(9) {
        0 | 1 => None,
        2 => {
            tags.push("label-eq");
            Some(format!("host = 'h{}'", rng.below(3)))
        }
        3 => {
            tags.push("label-neq");
            Some(format!("host <> 'h{}'", rng.below(3)))
        }
        4 => {
            tags.push("label-in");
            Some(format!("metric_name IN ('m0', 'm{}')", rng.below(3)))
        }
        5 => {
            tags.push("label-is-null");
            Some(if rng.chance(1, 2) { "host IS NULL".to_string() } else { "host IS NOT NULL".to_string() })
        }
        6 => {
            tags.push("extra-ts-or");
            let x = rows_[rng.usize(rows_.len())].ts;
            Some(format!("(timestamp < {} OR metric_name = 'm1')", ts_lit(rng, x, typed, now, tags)))
        }
        7 => {
            tags.push("extra-ts-not");
            let x = rows_[rng.usize(rows_.len())].ts;
            Some(format!("NOT (timestamp = {})", ts_lit(rng, x, typed, now, tags)))
        }
        _ => {
            tags.push("label-or");
            Some(format!("(host = 'h0' OR metric_name = 'm{}')", rng.below(3)))
        }
    }
}

fn gen_query(rng: &mut Rng, rows_: &[RowSpec], typed: bool, now: i64) -> (String, Vec<&'static str>) {
    let mut tags = vec![];
    let w = gen_window(rng, rows_, typed, now, &mut tags);
    let p = gen_pred(rng, rows_, typed, now, &mut tags);
    let wh = match p {
        Some(p) => {
            if rng.chance(1, 2) {
                format!("{} AND {}", w, p)
            } else {
                format!("{} AND ({})", p, w)
            }
        }
        None => w,
    };
    let sql = match rng.below(15) {
        13 if !typed => {
            // a projection in FROM that re-uses the name of the time column for a shifted value: the window then
            // speaks about the shifted value, not about the stored column the time index knows
            tags.push("derived-table-shifted-timestamp");
            format!("SELECT value_i64, timestamp FROM (SELECT timestamp + 3600000000000 AS timestamp, value_i64, host, metric_name FROM metrics) d WHERE {}", wh)
        }
        14 => {
            // the same rows through a derived table that keeps every column as it is
            tags.push("derived-table-identity");
            format!("SELECT value_i64, timestamp FROM (SELECT timestamp, value_i64, host, metric_name FROM metrics) d WHERE {}", wh)
        }
        7..=14 | 0 | 1 => format!("SELECT value_i64, timestamp, host, metric_name FROM metrics WHERE {}", wh),
        2 => {
            tags.push("select-star");
            format!("SELECT * FROM metrics WHERE {}", wh)
        }
        3 => {
            tags.push("aggregate");
            format!("SELECT count(*) AS n, min(value_i64) AS lo, max(value_i64) AS hi, sum(value_i64) AS s FROM metrics WHERE {}", wh)
        }
        4 => {
            tags.push("group-by");
            format!("SELECT metric_name, host, count(*) AS n, sum(value_i64) AS s FROM metrics WHERE {} GROUP BY metric_name, host", wh)
        }
        5 => {
            tags.push("order-limit");
            format!("SELECT value_i64 FROM metrics WHERE {} ORDER BY value_i64 LIMIT 7", wh)
        }
        _ => format!("SELECT value_i64 FROM metrics WHERE {}", wh),
    };
    tags.sort();
    tags.dedup();
    (sql, tags)
}

async fn oracle(all: &[RecordBatch], sql: &str) -> Result<Vec<String>, String> {
    let ctx = SessionContext::new();
    let mt = datafusion::datasource::MemTable::try_new(all[0].schema(), vec![all.to_vec()]).map_err(|e| e.to_string())?;
    ctx.register_table("metrics", Arc::new(mt)).map_err(|e| e.to_string())?;
    let out = ctx.sql(sql).await.map_err(|e| e.to_string())?.collect().await.map_err(|e| e.to_string())?;
    Ok(rows::canonical_rows(&out))
}

pub fn run(ctx: &Ctx) -> Outcome {
    let mut out = Outcome::new(
        "C04",
        "case = one (dataset, chunk layout / compaction state / backend / cache temperature / adaptive indexing, query) evaluation compared with the SQL \
         oracle over all ingested rows; non-trivial = the catalog selected a strict subset of the chunks for the query's window (pruning happened) AND the \
         answer is non-empty; distinct by hash of (dataset, variant, SQL)",
    );
    out.assume("DataFusion 44 on an in-memory table is the reference for SQL semantics (a bug common to both sides is invisible)");
    out.assume("the wall clock is frozen during a case, so now() is the same instant for cardinalsin and the oracle");
    let datasets: u64 = if ctx.thorough { 14 * 60 } else { 96 };
    let rt = tokio::runtime::Builder::new_current_thread().enable_all().build().unwrap();
    rt.block_on(async {
        for idx in ctx.my_cases(datasets) {
            let mut rng = ctx.rng("C04", idx);
            dataset_case(ctx, &mut out, &mut rng, idx).await;
        }
    });
    clock::unfreeze_wall();
    out
}

async fn dataset_case(ctx: &Ctx, out: &mut Outcome, rng: &mut Rng, idx: u64) {
    // every seventh dataset is stored under an empty tenant prefix (chunk paths with a leading slash)
    let tenant: &'static str = if idx % 7 == 3 { "" } else { "t" };
    let storage_config = move || cardinalsin::StorageConfig { provider: cardinalsin::CloudProvider::Memory, container: "verif".into(), tenant_id: tenant.into() };
    let now = clock::SIM_EPOCH_NS + rng.range(0, 3 * H);
    clock::freeze_wall(now);
    let typed = rng.chance(1, 2);
    let kind = if typed { SchemaKind::T } else { SchemaKind::B };
    let rows_ = gen_rows(rng, now, idx as i64 * 100_000);
    let all_batches = vec![rows::make_batch(kind, &rows_)];
    let nqueries = if ctx.thorough { 40 } else { 24 };
    let queries: Vec<(String, Vec<&'static str>)> = (0..nqueries).map(|_| gen_query(rng, &rows_, typed, now)).collect();
    // reference answers once per dataset
    let mut refs = vec![];
    for (sql, _) in &queries {
        refs.push(oracle(&all_batches, sql).await);
    }
    // ---- variants: 3 layouts x {before, after compaction}, alternate backends / adaptive indexing
    for layout in 0..3u64 {
        let local_backend = (idx + layout) % 2 == 0;
        let adaptive = (idx + layout) % 3 == 0;
        let store = Arc::new(InMemory::new());
        let meta: Arc<dyn MetadataClient> = if local_backend {
            Arc::new(LocalMetadataClient::new())
        } else {
            Arc::new(ObjectStoreMetadataClient::new(store.clone(), ObjectStoreMetadataConfig::default()))
        };
        let flush_rows = [1usize << 30, 7, 23][layout as usize];
        let mut cfg: IngesterConfig = crate::checks::c03::no_wal_ingester_config();
        cfg.flush_row_count = flush_rows;
        let ing = Arc::new(Ingester::new(cfg, store.clone(), meta.clone(), storage_config(), MetricSchema::default_metrics()));
        // write in batches of varying size, in a layout-dependent order
        let mut order: Vec<usize> = (0..rows_.len()).collect();
        if layout == 1 {
            order.reverse();
        } else if layout == 2 {
            let mut r2 = rng.fork(layout);
            r2.shuffle(&mut order);
        }
        let mut i = 0;
        while i < order.len() {
            let k = (1 + (i * 7 + layout as usize) % 9).min(order.len() - i);
            let chunk: Vec<RowSpec> = order[i..i + k].iter().map(|j| rows_[*j].clone()).collect();
            if let Err(e) = ing.write(rows::make_batch(kind, &chunk)).await {
                out.inconclusive(&format!("dataset {idx}: write failed: {e}"));
                return;
            }
            i += k;
        }
        // flush the rest
        ing.shutdown_token().cancel();
        ing.run_flush_timer().await;
        let mut node = match QueryNode::new(crate::checks::c09::query_config(), store.clone(), meta.clone(), storage_config()).await {
            Ok(n) => n,
            Err(e) => {
                out.inconclusive(&format!("query node: {e}"));
                return;
            }
        };
        if adaptive {
            node = node.with_adaptive_indexing(Arc::new(AdaptiveIndexController::new(AdaptiveIndexConfig::default())));
        }
        for phase in 0..2 {
            if phase == 1 {
                // compaction cycles change the chunking but must not change any answer
                let comp = Compactor::new(
                    CompactorConfig {
                        l0_merge_threshold: 2,
                        l0_target_size: 1 << 20,
                        l1_target_size: 6_000,
                        l2_target_size: 20_000,
                        max_levels: 3,
                        retention_days: 36_500, // far beyond any dataset (some lie around 1970): retention must not thin out the data under test
                        downsample_after_days: 7,
                        downsample_resolution: Duration::from_secs(60),
                        check_interval: Duration::from_secs(60),
                        gc_grace_period: Duration::from_secs(300),
                        sharding_enabled: false,
                    },
                    store.clone(),
                    meta.clone(),
                    storage_config(),
                    Arc::new(ShardMonitor::new(HotShardConfig::default())),
                );
                let _ = comp.run_compaction_cycle().await;
            }
            let total_chunks = meta.list_chunks().await.map(|v| v.len()).unwrap_or(0);
            for (qi, (sql, tags)) in queries.iter().enumerate() {
                let Ok(want) = &refs[qi] else {
                    out.count("oracle_rejected_sql", 1);
                    continue;
                };
                // cold, then warm (repeat), the repeat coming after other queries
                for temp in 0..2 {
                    if temp == 1 && qi % 3 != 0 {
                        continue;
                    }
                    let got = node.query(sql).await.map(|b| rows::canonical_rows(&b));
                    out.eval();
                    out.count("evaluations_by_variant", 1);
                    let variant = format!("layout{}-{}-{}-{}-{}", layout, if phase == 0 { "raw" } else { "compacted" }, if local_backend { "local" } else { "objstore" }, if adaptive { "adaptive" } else { "plain" }, if temp == 0 { "cold" } else { "warm" });
                    // non-triviality: pruning happened and the answer is non-empty
                    if let Ok(tr) = node.engine.extract_time_range(sql).await {
                        if let Ok(sel) = meta.get_chunks(TimeRange::new(tr.start, tr.end)).await {
                            if sel.len() < total_chunks && !want.is_empty() {
                                out.nontrivial(hash_str(&format!("{}|{}|{}", idx, variant, sql)));
                            }
                        }
                    }
                    match got {
                        Ok(g) if &g == want => {}
                        other => {
                            // most specific construct first
                            let class = ["or-of-equalities", "or-of-windows", "negated-bounds", "extra-ts-or", "extra-ts-not", "timestamp-literal", "to_timestamp_nanos", "now-relative", "arrow_cast", "equality", "between", "reversed-operands", "half-open", "closed"]
                                .iter()
                                .find(|c| tags.contains(c))
                                .copied()
                                .unwrap_or("other");
                            let kind_s = match &other {
                                Err(_) => "error",
                                Ok(g) if g.len() < want.len() => "rows-missing",
                                Ok(g) if g.len() > want.len() => "rows-extra",
                                _ => "rows-differ",
                            };
                            out.violation(
                                &format!("C04/{}/{}", kind_s, class),
                                &format!("[{}] {} : cardinalsin {:?} rows, full scan {} rows", variant, sql, other.as_ref().map(|g| g.len()).map_err(|e| e.to_string().chars().take(120).collect::<String>()), want.len()),
                                json!({"dataset_index": idx, "seed": ctx.seed, "variant": variant, "sql": sql, "shape": tags, "timestamp_type": if typed {"Timestamp(ns)"} else {"Int64"},
                                    "now_ns": now, "chunks_in_catalog": total_chunks,
                                    "extracted_time_range": node.engine.extract_time_range(sql).await.map(|t| (t.start, t.end)).ok(),
                                    "answer": other.as_ref().map(|g| g.iter().take(6).cloned().collect::<Vec<_>>()).map_err(|e| e.to_string()), "full_scan": want.iter().take(6).collect::<Vec<_>>()}),
                            );
                        }
                    }
                }
            }
        }
    }
    if idx < 2 {
        out.sample(json!({"dataset_index": idx, "rows": rows_.len(), "timestamp_type": if typed {"Timestamp(ns)"} else {"Int64"},
            "queries": queries.iter().take(4).map(|q| json!({"sql": q.0, "shape": q.1})).collect::<Vec<_>>()}));
    }
}
