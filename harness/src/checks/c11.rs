//! C11 — the query interfaces cannot modify stored data.
//!
//! A dataset is ingested, then hostile statements (COPY ... TO, CREATE [EXTERNAL]
//! TABLE / VIEW, CTAS, DROP, INSERT, SET, EXPLAIN [ANALYZE] of those,
//! multi-statement strings) with targets that are existing chunk paths, new
//! paths, the catalog object and local files are submitted through every query
//! interface: QueryNode::query, the HTTP router (/api/v1/sql GET and POST, the
//! Prometheus endpoints with hostile matchers), FlightSqlQueryService
//! (execute, flight info / analyze, prepare, do_get) and query_stream.
//! Monitor: full object listing (path, size, ETag), catalog, a scratch local
//! directory, the session's table list and the answer of a fixed probe query
//! are compared before vs after each statement; a writing / redefining
//! statement must come back as an error.

use crate::outcome::Outcome;
use crate::rng::{hash_str, Rng};
use crate::rows::{self, RowSpec, SchemaKind};
use crate::util;
use crate::Ctx;
use axum::body::Body;
use cardinalsin::api::query::flight_sql::FlightSqlQueryService;
use cardinalsin::ingester::Ingester;
use cardinalsin::metadata::{LocalMetadataClient, MetadataClient};
use cardinalsin::query::QueryNode;
use cardinalsin::schema::MetricSchema;
use futures::StreamExt;
use object_store::memory::InMemory;
use object_store::ObjectStore;
use serde_json::{json, Value};
use std::collections::BTreeMap;
use std::sync::Arc;
use tower::ServiceExt;

struct Env {
    store: Arc<InMemory>,
    meta: Arc<LocalMetadataClient>,
    node: Arc<QueryNode>,
    router: axum::Router,
    flight: FlightSqlQueryService,
    chunk_paths: Vec<String>,
    scratch: String,
    lo: i64,
    hi: i64,
    /// loopback port of the same router served over TCP (for the WebSocket interface); None if no socket could be bound
    ws_port: Option<u16>,
    _server: Option<tokio::task::JoinHandle<()>>,
}

impl Drop for Env {
    fn drop(&mut self) {
        if let Some(h) = self._server.take() {
            h.abort();
        }
    }
}

async fn new_env(rng: &mut Rng, scratch: &str) -> Result<Env, String> {
    let store = Arc::new(InMemory::new());
    let meta = Arc::new(LocalMetadataClient::new());
    let ing = Arc::new(Ingester::new(
        crate::checks::c03::no_wal_ingester_config(),
        store.clone(),
        meta.clone(),
        crate::checks::c01::storage_config(),
        MetricSchema::default_metrics(),
    ));
    let base = 1_700_000_000_000_000_000i64;
    let mut id = 0;
    for c in 0..3 {
        let rows: Vec<RowSpec> = (0..4)
            .map(|_| {
                id += 1;
                RowSpec { id, ts: base + c * 1_000_000 + rng.range(0, 999_999), metric: "cpu".into(), host: Some("h".into()), value: id as f64 }
            })
            .collect();
        ing.write(rows::make_batch(SchemaKind::T, &rows)).await.map_err(|e| e.to_string())?;
    }
    let mut node = QueryNode::new(crate::checks::c09::query_config(), store.clone(), meta.clone(), crate::checks::c01::storage_config()).await.map_err(|e| e.to_string())?;
    node.connect_broadcast(ing.subscribe());
    let node = Arc::new(node);
    let router = cardinalsin::api::build_http_router(ing.clone(), node.clone());
    let chunk_paths = meta.list_chunks().await.map_err(|e| e.to_string())?.into_iter().map(|c| c.chunk_path).collect();
    std::fs::create_dir_all(scratch).ok();
    let (ws_port, server) = match tokio::net::TcpListener::bind("127.0.0.1:0").await {
        Ok(l) => {
            let port = l.local_addr().ok().map(|a| a.port());
            let r2 = router.clone();
            (port, Some(tokio::spawn(async move {
                let _ = axum::serve(l, r2).await;
            })))
        }
        Err(_) => (None, None),
    };
    Ok(Env { flight: FlightSqlQueryService::new(node.clone()), store, meta, node, router, chunk_paths, scratch: scratch.to_string(), lo: base - 1, hi: base + 10_000_000, ws_port, _server: server })
}

#[derive(PartialEq, Debug, Clone)]
struct Snapshot {
    objects: BTreeMap<String, (usize, String)>,
    catalog: Vec<(String, i64, i64, u64)>,
    local_files: Vec<String>,
    tables: Vec<String>,
    probe: String,
}

impl Env {
    async fn snapshot(&self) -> Snapshot {
        let mut objects = BTreeMap::new();
        let mut ls = self.store.list(None);
        while let Some(Ok(m)) = ls.next().await {
            objects.insert(m.location.to_string(), (m.size, m.e_tag.unwrap_or_default()));
        }
        let mut catalog: Vec<(String, i64, i64, u64)> = self.meta.list_chunks().await.unwrap_or_default().into_iter().map(|c| (c.chunk_path, c.min_timestamp, c.max_timestamp, c.row_count)).collect();
        catalog.sort();
        let mut local_files: Vec<String> = vec![];
        fn walk(d: &str, out: &mut Vec<String>) {
            if let Ok(rd) = std::fs::read_dir(d) {
                for e in rd.flatten() {
                    let p = e.path();
                    if p.is_dir() {
                        walk(p.to_str().unwrap_or(""), out);
                    } else {
                        out.push(p.to_string_lossy().to_string());
                    }
                }
            }
        }
        walk(&self.scratch, &mut local_files);
        local_files.sort();
        // tables the session knows (everything except the logical `metrics` table and the information schema)
        let mut tables = vec![];
        let ctx = self.node.engine.context();
        for cat in ctx.catalog_names() {
            if let Some(c) = ctx.catalog(&cat) {
                for sch in c.schema_names() {
                    if sch == "information_schema" {
                        continue;
                    }
                    if let Some(s) = c.schema(&sch) {
                        for t in s.table_names() {
                            tables.push(format!("{}.{}.{}", cat, sch, t));
                        }
                    }
                }
            }
        }
        tables.sort();
        tables.push(format!("session.batch_size={}", ctx.copied_config().batch_size()));
        let probe = match self.node.query(&format!("SELECT count(*) AS n, sum(value_i64) AS s FROM metrics WHERE timestamp >= {} AND timestamp <= {}", self.lo, self.hi)).await {
            Ok(b) => format!("{:?}", rows::canonical_rows(&b)),
            Err(e) => format!("probe error: {}", e),
        };
        Snapshot { objects, catalog, local_files, tables, probe }
    }
}

/// (sql, kind tag, must_be_rejected)
fn gen_statement(rng: &mut Rng, env: &Env) -> (String, &'static str, bool) {
    let existing = env.chunk_paths[rng.usize(env.chunk_paths.len())].clone();
    let targets = [
        format!("memory://verif/{}", existing),
        format!("memory://verif/evil/out_{}.parquet", rng.below(1000)),
        "memory://verif/metadata/catalog.json".to_string(),
        format!("{}/out_{}.parquet", env.scratch, rng.below(1000)),
        format!("file://{}/out_{}.csv", env.scratch, rng.below(1000)),
        format!("memory://verif/t/data/year=2030/month=01/day=01/hour=00/chunk_x{}.parquet", rng.below(100)),
    ];
    let target = targets[rng.usize(targets.len())].clone();
    let fmt = if target.ends_with(".csv") { "CSV" } else { "PARQUET" };
    // the inner query also comes without any mention of the metrics table (catalog lookups, constants): a route
    // chosen by what the text mentions must not lead around the read-only planning
    let sel = [
        "SELECT 1 AS a",
        "SELECT * FROM metrics",
        "SELECT value_i64 FROM metrics WHERE timestamp >= 0",
        "SELECT table_name FROM information_schema.tables",
        "SELECT name, value FROM information_schema.df_settings",
        "VALUES (1), (2)",
    ][rng.usize(6)];
    let (sql, kind, reject): (String, &'static str, bool) = match rng.below(14) {
        0 | 1 => (format!("COPY ({}) TO '{}' STORED AS {}", sel, target, fmt), "copy-to", true),
        2 => (format!("COPY metrics TO '{}' STORED AS {}", target, fmt), "copy-to", true),
        3 => (format!("CREATE TABLE evil_{} AS {}", rng.below(50), sel), "ctas", true),
        4 => (format!("CREATE VIEW evil_view_{} AS {}", rng.below(50), sel), "create-view", true),
        5 => (format!("CREATE EXTERNAL TABLE ext_{} STORED AS PARQUET LOCATION 'memory://verif/{}'", rng.below(50), existing), "create-external-table", true),
        6 => ("DROP TABLE metrics".to_string(), "drop-table", true),
        7 => (format!("INSERT INTO metrics {}", "SELECT * FROM metrics"), "insert", true),
        8 => (
            match rng.below(3) {
                0 => format!("SET datafusion.execution.batch_size = {}", 1 + rng.below(4)),
                1 => "SET datafusion.catalog.information_schema = false".to_string(),
                _ => "SET datafusion.sql_parser.enable_ident_normalization = false".to_string(),
            },
            "set",
            true,
        ),
        9 => (format!("EXPLAIN ANALYZE COPY ({}) TO '{}' STORED AS {}", sel, target, fmt), "explain-analyze-copy", true),
        10 => (format!("EXPLAIN CREATE TABLE evil_e AS {}", sel), "explain-ddl", false),
        11 => (format!("{}; COPY ({}) TO '{}' STORED AS {}", sel, sel, target, fmt), "multi-statement", true),
        12 => (format!("CREATE OR REPLACE VIEW metrics AS SELECT 1 AS timestamp, 'x' AS metric_name"), "redefine-metrics", true),
        _ => (format!("{} WHERE timestamp >= 0 AND timestamp <= 1", "SELECT count(*) FROM metrics"), "plain-select", false),
    };
    (sql, kind, reject)
}

pub fn run(ctx: &Ctx) -> Outcome {
    let mut out = Outcome::new(
        "C11",
        "case = one (statement, interface) submission with full before/after comparison of object listing, catalog, scratch directory, session \
         table list and a fixed probe query; non-trivial = the statement is a writing / redefining kind (not a plain SELECT), distinct by hash of \
         (statement text, interface)",
    );
    out.assume("the store is the in-memory object store registered under memory://verif; local writes are looked for under a scratch directory");
    let cases: u64 = if ctx.thorough { 14 * 8000 } else { 4000 };
    let rt = tokio::runtime::Builder::new_current_thread().enable_all().build().unwrap();
    let root = util::scratch_dir("c11");
    rt.block_on(async {
        let my = ctx.my_cases(cases);
        let mut env: Option<Env> = None;
        for idx in my {
            let mut rng = ctx.rng("C11", idx);
            if env.is_none() || idx % 40 == 0 {
                match new_env(&mut rng, &format!("{}/s{}", root, idx)).await {
                    Ok(e) => env = Some(e),
                    Err(e) => {
                        out.inconclusive(&format!("environment: {e}"));
                        return;
                    }
                }
            }
            let e = env.as_ref().unwrap();
            one_case(ctx, &mut out, &mut rng, idx, e).await;
            // a violated environment is replaced so that one defect is reported once per statement
            if out.violations.len() > 0 && idx % 5 == 0 {
                env = None;
            }
        }
    });
    util::remove_dir(&root);
    out
}

async fn one_case(ctx: &Ctx, out: &mut Outcome, rng: &mut Rng, idx: u64, env: &Env) {
    let (sql, kind, must_reject) = gen_statement(rng, env);
    const IFACES: [&str; 18] = [
        "QueryNode::query", "http-post", "http-get", "flight-execute", "flight-info", "flight-prepare", "flight-do_get", "query_stream", "prom-query", "prom-series",
        "prom-query-post", "prom-range", "prom-range-post", "prom-labels", "prom-labels-post", "prom-label-values", "prom-series-post", "websocket",
    ];
    let iface = IFACES[rng.usize(IFACES.len())];
    let pct = |t: &str| -> String { t.bytes().map(|b| if b.is_ascii_alphanumeric() { (b as char).to_string() } else { format!("%{:02X}", b) }).collect() };
    let before = env.snapshot().await;
    // submit
    let accepted: Result<bool, String> = match iface {
        "QueryNode::query" => Ok(env.node.query(&sql).await.is_ok()),
        "http-post" => {
            let req = axum::http::Request::builder().method("POST").uri("/api/v1/sql").header("content-type", "application/json").body(Body::from(json!({"query": sql}).to_string())).unwrap();
            env.router.clone().oneshot(req).await.map(|r| r.status().is_success()).map_err(|e| e.to_string())
        }
        "http-get" => {
            let q: String = sql.bytes().map(|b| if b.is_ascii_alphanumeric() { (b as char).to_string() } else { format!("%{:02X}", b) }).collect();
            let req = axum::http::Request::builder().method("GET").uri(format!("/api/v1/sql?query={}", q)).body(Body::empty()).unwrap();
            env.router.clone().oneshot(req).await.map(|r| r.status().is_success()).map_err(|e| e.to_string())
        }
        "flight-execute" => Ok(env.flight.execute_batches(&sql).await.is_ok()),
        "flight-info" => Ok(env.flight.get_flight_info(&sql).await.is_ok()),
        "flight-prepare" => Ok(env.flight.create_prepared_statement(&sql).await.is_ok()),
        "flight-do_get" => Ok(env.flight.do_get(&arrow_flight::Ticket::new(sql.as_bytes().to_vec())).await.is_ok()),
        "query_stream" => {
            // needs a connected broadcast: use a throw-away channel
            Ok(env.node.query_stream(&sql).await.is_ok())
        }
        "websocket" => {
            // the statement as the query of a streaming request over a real WebSocket (historical part only)
            use futures::SinkExt;
            use tokio_tungstenite::tungstenite::Message;
            match env.ws_port {
                None => Err("no loopback socket".to_string()),
                Some(port) => match tokio_tungstenite::connect_async(format!("ws://127.0.0.1:{}/api/v1/stream", port)).await {
                    Err(e) => Err(format!("ws connect: {e}")),
                    Ok((mut ws, _)) => {
                        let _ = ws.send(Message::Text(json!({"query": sql, "live": false}).to_string())).await;
                        let mut ok = true;
                        // the handler answers data* then "end", or one "error"
                        loop {
                            match tokio::time::timeout(std::time::Duration::from_secs(60), ws.next()).await {
                                Ok(Some(Ok(Message::Text(t)))) => {
                                    if t.contains("\"type\":\"error\"") {
                                        ok = false;
                                        break;
                                    }
                                    if t.contains("\"type\":\"end\"") {
                                        break;
                                    }
                                }
                                Ok(Some(Ok(_))) => continue,
                                _ => break,
                            }
                        }
                        Ok(ok)
                    }
                },
            }
        }
        _ => {
            // hostile matcher: the statement text is smuggled into a label value / metric selector / label
            // name / grouping list of the Prometheus-compatible endpoints
            let promql = match rng.below(5) {
                0 => format!("cpu{{host=\"x'; {} --\"}}", sql.replace('"', "")),
                1 => format!("cpu{{host=~\"'); {}; --\"}}", sql.replace('"', "")),
                2 => format!("sum by (host\"; {}; --) (cpu)", sql.replace('"', "")),
                3 => format!("cpu{{host\" = 'x'; {}; --=\"v\"}}", sql.replace('"', "")),
                _ => format!("{{__name__=\"cpu' UNION ALL {} --\"}}", sql.replace('"', "")),
            };
            let form = |pairs: &[(&str, String)]| -> String { pairs.iter().map(|(k, v)| format!("{}={}", pct(k), pct(v))).collect::<Vec<_>>().join("&") };
            let get = |uri: String| axum::http::Request::builder().method("GET").uri(uri).body(Body::empty()).unwrap();
            let post = |uri: &str, body: String| axum::http::Request::builder().method("POST").uri(uri).header("content-type", "application/x-www-form-urlencoded").body(Body::from(body)).unwrap();
            let req = match iface {
                "prom-query-post" => Some(post("/api/v1/query", form(&[("query", promql.clone())]))),
                "prom-range" => Some(get(format!("/api/v1/query_range?{}", form(&[("query", promql.clone()), ("start", "1700000000".into()), ("end", "1700000600".into()), ("step", "60".into())])))),
                "prom-range-post" => Some(post("/api/v1/query_range", form(&[("query", promql.clone()), ("start", "1700000000".into()), ("end", "1700000600".into()), ("step", "60".into())]))),
                "prom-labels" => Some(get(format!("/api/v1/labels?{}", form(&[("match[]", promql.clone())])))),
                "prom-labels-post" => Some(post("/api/v1/labels", form(&[("match[]", promql.clone())]))),
                "prom-label-values" => {
                    // hostile label name in the path, hostile matcher in the query string
                    let name = match rng.below(3) {
                        0 => format!("host\"; {}; --", sql.replace('"', "")),
                        1 => format!("host FROM metrics; {}; --", sql),
                        _ => "host".to_string(),
                    };
                    Some(get(format!("/api/v1/label/{}/values?{}", pct(&name), form(&[("match[]", promql.clone())]))))
                }
                "prom-series-post" => Some(post("/api/v1/series", form(&[("match[]", promql.clone())]))),
                _ => None,
            };
            if let Some(req) = req {
                // Prometheus endpoints answer 200 with status=error; acceptance is not judged here, only effects
                let r = env.router.clone().oneshot(req).await.map(|_| false).map_err(|e| e.to_string());
                let after = env.snapshot().await;
                return finish_case(ctx, out, idx, env, &sql, kind, must_reject, iface, before, after, r);
            }
            let enc: String = promql.bytes().map(|b| if b.is_ascii_alphanumeric() { (b as char).to_string() } else { format!("%{:02X}", b) }).collect();
            let uri = if iface == "prom-query" { format!("/api/v1/query?query={}", enc) } else { format!("/api/v1/series?match[]={}", enc) };
            let req = axum::http::Request::builder().method("GET").uri(uri).body(Body::empty()).unwrap();
            // Prometheus endpoints answer 200 with status=error; acceptance is not judged here, only effects
            env.router.clone().oneshot(req).await.map(|_| false).map_err(|e| e.to_string())
        }
    };
    let after = env.snapshot().await;
    finish_case(ctx, out, idx, env, &sql, kind, must_reject, iface, before, after, accepted)
}

#[allow(clippy::too_many_arguments)]
fn finish_case(ctx: &Ctx, out: &mut Outcome, idx: u64, _env: &Env, sql: &str, kind: &'static str, must_reject: bool, iface: &str, before: Snapshot, after: Snapshot, accepted: Result<bool, String>) {
    let sql = sql.to_string();
    out.eval();
    out.count(&format!("interface.{}", iface), 1);
    out.count(&format!("kind.{}", kind), 1);
    if kind != "plain-select" {
        out.nontrivial(hash_str(&format!("{}|{}", sql, iface)));
    }
    let witness = |extra: Value| json!({"case_index": idx, "seed": ctx.seed, "statement": sql, "interface": iface, "detail": extra});
    if before != after {
        let mut diffs = vec![];
        for (p, v) in &after.objects {
            match before.objects.get(p) {
                None => diffs.push(format!("object created: {} ({} bytes)", p, v.0)),
                Some(o) if o != v => diffs.push(format!("object overwritten: {}", p)),
                _ => {}
            }
        }
        for p in before.objects.keys() {
            if !after.objects.contains_key(p) {
                diffs.push(format!("object deleted: {}", p));
            }
        }
        if before.catalog != after.catalog {
            diffs.push("catalog changed".into());
        }
        for f in &after.local_files {
            if !before.local_files.contains(f) {
                diffs.push(format!("local file created: {}", f));
            }
        }
        for t in &after.tables {
            if !before.tables.contains(t) {
                diffs.push(format!("session table/view created: {}", t));
            }
        }
        for t in &before.tables {
            if !after.tables.contains(t) {
                diffs.push(format!("session table dropped: {}", t));
            }
        }
        if before.probe != after.probe {
            diffs.push(format!("probe query answer changed: {} -> {}", before.probe, after.probe));
        }
        let class = if diffs.iter().any(|d| d.starts_with("object") || d.starts_with("local file") || d.starts_with("catalog")) { "storage-modified" } else { "session-modified" };
        out.violation(
            &format!("C11/{}/{}", class, kind),
            &format!("{} through {}: {}", kind, iface, diffs.join("; ")),
            witness(json!({"differences": diffs})),
        );
    }
    if let Ok(true) = accepted {
        if must_reject && !iface.starts_with("prom") {
            out.violation(
                &format!("C11/accepted/{}", kind),
                &format!("a {} statement was accepted (no error) through {}", kind, iface),
                witness(json!(null)),
            );
        }
    }
    if let Err(e) = &accepted {
        out.note(&format!("interface error: {}", e.chars().take(120).collect::<String>()));
    }
    if idx % 211 == 0 {
        out.sample(json!({"statement": sql, "interface": iface, "kind": kind, "accepted": format!("{:?}", accepted)}));
    }
}
