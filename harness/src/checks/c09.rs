//! C09 — garbage collection and retention delete only what is safe to delete.
//!
//! SIM: datasets with old / fresh / straddling chunks, retention 1 / 90 /
//! 36 500 days, GC grace 0 s / 1 s / 300 s. A real Compactor (sharing a
//! ChunkPinRegistry with real QueryNodes) runs cycles; queries are parked by
//! the scheduler at their chunk GETs, so their pins last as long as the
//! scheduler likes; the shared wall clock jumps across the grace period; the
//! compactor is "restarted" through `run()` (the only public path that loads
//! persisted deletions). Monitors over the recorded DELETE requests, catalog
//! versions and pin state at the instant of each DELETE:
//!   G1 a deleted data file is not in the current catalog
//!   G2 it has been unreferenced for >= grace
//!   G3 it is not pinned at that instant
//!   G4 it was in the catalog once (nothing else is ever deleted)
//!   R1 retention drops a chunk only if max_timestamp <= now - retention - skew
//!   P1 deletions persisted at the end of a cycle are carried out by a restarted
//!      compactor within one cycle once grace has passed (bounded progress)

use crate::checks::c01::storage_config;
use crate::checks::c02::committed_puts;
use crate::checks::c03::no_wal_ingester_config;
use crate::clock;
use crate::outcome::Outcome;
use crate::rng::{hash_str, Rng};
use crate::rows::{self, RowSpec, SchemaKind};
use crate::sim::{self, Ctl, Scheduler, Step, Strategy};
use crate::simmeta::RecMeta;
use crate::Ctx;
use cardinalsin::clock::BoundedClock;
use cardinalsin::compactor::{ChunkPinRegistry, Compactor, CompactorConfig};
use cardinalsin::ingester::Ingester;
use cardinalsin::metadata::{LocalMetadataClient, MetadataCatalog, MetadataClient, ObjectStoreMetadataClient, ObjectStoreMetadataConfig};
use cardinalsin::query::{QueryConfig, QueryNode};
use cardinalsin::schema::MetricSchema;
use cardinalsin::sharding::{HotShardConfig, ShardMonitor};
use object_store::ObjectStore;
use parking_lot::Mutex;
use serde_json::{json, Value};
use std::collections::{BTreeMap, BTreeSet};
use std::sync::Arc;
use std::time::Duration;

const S: i64 = 1_000_000_000;
const H: i64 = 3600 * S;
const DAY: i64 = 24 * H;

pub fn query_config() -> QueryConfig {
    QueryConfig {
        l1_cache_size: 1 << 20,
        l2_cache_size: 0,
        l2_cache_dir: None,
        max_concurrent_queries: 10,
        query_timeout: Duration::from_secs(300),
        streaming_enabled: true,
    }
}

pub fn run(ctx: &Ctx) -> Outcome {
    let mut out = Outcome::new(
        "C09",
        "case = one scenario: 4-10 chunks (old / fresh / straddling the cut-off), retention in {1, 90, 36500} days, grace in {0, 1, 300} s, \
         2-4 compaction cycles, 0-2 query actors parked at their chunk reads (pins), clock jumps, optional compactor restart through run(); \
         non-trivial = at least one data-file DELETE or one retention removal was observed (and judged), distinct by scheduler decision string",
    );
    out.assume("query node and compactor share one process (pin registry), one shared clock; skew margin = BoundedClock::default().max_skew()");
    let scenarios: u64 = if ctx.thorough { 14 * 8000 } else { 2400 };
    for idx in ctx.my_cases(scenarios) {
        let mut rng = ctx.rng("C09", idx);
        scenario(ctx, &mut out, &mut rng, idx);
    }
    clock::unfreeze_wall();
    let histories: u64 = if ctx.thorough { 14 * 60_000 } else { 30_000 };
    for idx in ctx.my_cases(histories) {
        let mut rng = ctx.rng("C09-pins", idx);
        pin_registry_history(ctx, &mut out, &mut rng, idx);
    }
    out
}

/// Lane PIN-MODEL: the registry the collector and the queries meet in, against reference counts.
/// Random histories of up to four overlapping "queries" (pin / try_pin of overlapping path lists, guard
/// drop) and a collector (begin_delete / end_delete); after every step `is_pinned(p)` must say exactly
/// whether a live guard covers p - a pin that vanishes while its guard is alive is a file deleted under
/// a running query one GC pass later - and a delete claim must be refused while a guard covers the path.
fn pin_registry_history(ctx: &Ctx, out: &mut Outcome, rng: &mut Rng, idx: u64) {
    let reg = ChunkPinRegistry::new();
    let paths: Vec<String> = (0..5).map(|i| format!("t/data/p{}.parquet", i)).collect();
    let mut counts: BTreeMap<String, u64> = BTreeMap::new();
    let mut deleting: BTreeSet<String> = BTreeSet::new();
    // (the guard type is not exported by name)
    let mut guards: Vec<(Vec<String>, Box<dyn std::any::Any>)> = vec![];
    let mut trace: Vec<String> = vec![];
    let mut refused_with_overlap = false;
    let n = 4 + rng.usize(12);
    for _ in 0..n {
        match rng.below(10) {
            0..=3 => {
                // a query pins its (ordered) chunk list
                let k = 1 + rng.usize(4);
                let mut list: Vec<String> = (0..k).map(|_| paths[rng.usize(paths.len())].clone()).collect();
                list.sort();
                list.dedup();
                if rng.chance(1, 3) {
                    list.reverse();
                }
                if rng.chance(1, 5) {
                    trace.push(format!("pin{:?}", list));
                    let g = reg.pin(list.clone());
                    for p in &list {
                        *counts.entry(p.clone()).or_insert(0) += 1;
                    }
                    guards.push((list, Box::new(g)));
                } else {
                    let must_refuse = list.iter().any(|p| deleting.contains(p));
                    match reg.try_pin(list.clone()) {
                        Ok(g) => {
                            trace.push(format!("try_pin{:?}=ok", list));
                            if must_refuse {
                                out.violation("C09/pin-registry/pinned-a-path-whose-delete-is-in-flight", &format!("{:?}", trace), json!({"lane": "pin-model", "history": idx, "seed": ctx.seed}));
                                return;
                            }
                            for p in &list {
                                *counts.entry(p.clone()).or_insert(0) += 1;
                            }
                            guards.push((list, Box::new(g)));
                        }
                        Err(_) => {
                            trace.push(format!("try_pin{:?}=refused", list));
                            if list.iter().any(|p| counts.get(p).copied().unwrap_or(0) > 0) {
                                refused_with_overlap = true;
                            }
                            if !must_refuse {
                                // over-cautious, not unsafe: an observation, not a verdict
                                out.count("pin_model.pins_refused_without_a_delete_in_flight", 1);
                            }
                        }
                    }
                }
            }
            4 | 5 if !guards.is_empty() => {
                let i = rng.usize(guards.len());
                let (list, g) = guards.swap_remove(i);
                trace.push(format!("drop{:?}", list));
                drop(g);
                for p in &list {
                    if let Some(c) = counts.get_mut(p) {
                        *c = c.saturating_sub(1);
                    }
                }
            }
            6 | 7 => {
                let p = paths[rng.usize(paths.len())].clone();
                let pinned = counts.get(&p).copied().unwrap_or(0) > 0;
                let ok = reg.begin_delete(&p);
                trace.push(format!("begin_delete({})={}", p, ok));
                if ok && pinned {
                    out.violation("C09/pin-registry/delete-claimed-while-pinned", &format!("{:?}", trace), json!({"lane": "pin-model", "history": idx, "seed": ctx.seed}));
                    return;
                }
                if ok {
                    deleting.insert(p);
                }
            }
            _ => {
                if let Some(p) = deleting.iter().next().cloned() {
                    reg.end_delete(&p);
                    deleting.remove(&p);
                    trace.push(format!("end_delete({})", p));
                }
            }
        }
        out.eval();
        for p in &paths {
            let model = counts.get(p).copied().unwrap_or(0) > 0;
            if reg.is_pinned(p) != model {
                if !model {
                    // a path reported pinned without a guard only makes the collector wait: an observation
                    out.count("pin_model.paths_reported_pinned_without_a_guard", 1);
                    continue;
                }
                out.violation(
                    "C09/pin-registry/pin-lost-while-its-guard-is-alive",
                    &format!("after {:?}: is_pinned({}) = false, live guards covering it: {}", trace, p, counts.get(p).copied().unwrap_or(0)),
                    json!({"lane": "pin-model", "history": idx, "seed": ctx.seed, "trace": trace}),
                );
                return;
            }
        }
    }
    out.count("pin_model.histories", 1);
    if refused_with_overlap {
        out.count("pin_model.refusals_of_a_list_overlapping_a_live_pin", 1);
        out.nontrivial(hash_str(&format!("pins|{:?}", trace)));
    }
}

struct Res {
    events: Vec<crate::sim::Event>,
    decisions: String,
    hung: bool,
    deletes: Vec<(String, i64, bool)>, // (path, wall at apply, pinned at that instant)
    chunk_meta: BTreeMap<String, (i64, i64)>, // path -> (min, max) of every chunk ever in the catalog
    local_history: Vec<(u64, i64, BTreeSet<String>)>, // (event seq, wall, catalog paths) snapshots for the in-memory backend
    persisted_before_restart: Vec<(String, i64)>, // (path, scheduled_at ns)
    restart_done: bool,
    restart_clock_after_grace: bool,
    final_objects: BTreeSet<String>,
    final_pinned: BTreeSet<String>,
    query_results: Vec<String>,
    setup_err: Option<String>,
}

fn scenario(ctx: &Ctx, out: &mut Outcome, rng: &mut Rng, idx: u64) {
    let local_backend = rng.chance(1, 3);
    // a fifth of the scenarios run with an empty tenant prefix: the catalog's chunk paths then begin with '/'
    // (unusual but valid; the object store sees them without the slash - the oracle compares normalised paths)
    let tenant: &'static str = if rng.chance(1, 5) { "" } else { "t" };
    let sc = move || cardinalsin::StorageConfig { provider: cardinalsin::CloudProvider::Memory, container: "verif".into(), tenant_id: tenant.into() };
    // (the last two: "keep for ever" settings whose nanosecond count does not fit an i64)
    let retention_days = *rng.pick(&[1u32, 1, 1, 90, 90, 36_500, 36_500, 200_000, u32::MAX]);
    // (the last two: "never collect" settings beyond what the date arithmetic can represent)
    let grace_s = *rng.pick(&[0u64, 0, 1, 1, 300, 300, 300, 1u64 << 50, u64::MAX]);
    let grace_jump_s = grace_s.min(300); // what the harness' clock jumps are derived from
    let nchunks = 4 + rng.usize(7);
    let ncycles = 2 + rng.usize(3);
    let nqueries = rng.usize(4);
    let mut window_rng = rng.fork(7);
    let restart = rng.chance(1, 2);
    let admin_delete = rng.chance(1, 2);
    let jump_permille = *rng.pick(&[10u64, 40, 100]);
    let skew_ns = BoundedClock::default().max_skew().as_nanos() as i64;
    let now0 = clock::SIM_EPOCH_NS;
    let cutoff0 = (now0 as i128 - retention_days as i128 * DAY as i128 - skew_ns as i128).clamp(i64::MIN as i128, i64::MAX as i128) as i64;
    // chunk plans: list of row timestamps
    let mut plans: Vec<(String, Vec<i64>)> = vec![];
    for _ in 0..nchunks {
        let kind = rng.below(10);
        let k = 2 + rng.usize(3);
        let (label, ts): (&str, Vec<i64>) = if retention_days >= 36_500 {
            ("fresh", (0..k).map(|_| now0 - rng.range(1, 3 * H)).collect())
        } else if kind < 3 {
            ("old", (0..k).map(|_| cutoff0 - rng.range(2 * H, 3 * DAY)).collect())
        } else if kind < 6 {
            // straddling: some rows older than the cut-off, the newest clearly newer (stays newer across the clock jumps of one scenario)
            ("straddling", (0..k).map(|i| if i == 0 { cutoff0 + rng.range(2 * H, 20 * H) } else { cutoff0 - rng.range(1, 5 * H) }).collect())
        } else if kind < 7 {
            // newest row just inside the skew margin at start
            ("margin", (0..k).map(|i| if i == 0 { cutoff0 + rng.range(4 * H, 5 * H) } else { cutoff0 - rng.range(1, H) }).collect())
        } else {
            ("fresh", (0..k).map(|_| now0 - rng.range(1, 3 * H)).collect())
        };
        plans.push((label.to_string(), ts));
    }
    let strategy = match rng.below(6) {
        0..=2 => Strategy::Uniform,
        3 => Strategy::Pct { change_points: (0..3).map(|_| rng.below(150)).collect() },
        // one query runs for a long time (its pins outlive several GC passes and other queries)
        _ => Strategy::Slow { actor: "q0".into() },
    };
    let sched_rng = rng.fork(1);
    let mut clock_rng = rng.fork(2);
    let cfg = CompactorConfig {
        l0_merge_threshold: 2,
        l0_target_size: 1 << 20,
        l1_target_size: 1 << 30,
        l2_target_size: 1 << 30,
        max_levels: 2,
        retention_days,
        downsample_after_days: 7,
        downsample_resolution: Duration::from_secs(60),
        check_interval: Duration::from_millis(200),
        gc_grace_period: Duration::from_secs(grace_s),
        sharding_enabled: false,
    };
    // a burst of lost compare-and-swap races on the metadata objects (5 = a client's whole retry budget):
    // catalog mutations of the compactor (swap, retention's delete_chunk) fail with retry exhaustion
    let contention: Option<(u64, u64)> = if !local_backend && rng.chance(1, 5) { Some((rng.below(20), *rng.pick(&[5u64, 5, 6, 10]))) } else { None };
    // 0-1 storage faults at a random request (before / after the request took effect)
    let faults: Vec<crate::sim::Fault> = if rng.chance(1, 3) {
        vec![crate::sim::Fault { actor: None, index: rng.below(90), mode: if rng.chance(1, 2) { crate::sim::FaultMode::Before } else { crate::sim::FaultMode::After } }]
    } else {
        vec![]
    };
    let faults2 = faults.clone();
    // ... and in a quarter of the scenarios one aimed at a catalog write of the compactor (mostly "applied, but
    // reported as failed": the publication step's lost response)
    // (every other scenario when retention can act at all - one-day retention - so that a retention delete whose
    //  catalog write is lost or answered late is met tens of times per quick run and not three to six times)
    let aimed: Vec<crate::sim::FaultMatch> = if rng.chance(if retention_days == 1 { 2 } else { 1 }, 4) {
        vec![crate::sim::FaultMatch {
            actor_prefix: "comp".into(),
            op: "PUT".into(),
            path_contains: "catalog.json".into(),
            nth: rng.below(4),
            mode: if rng.chance(2, 3) { crate::sim::FaultMode::After } else { crate::sim::FaultMode::Before },
        }]
    } else {
        vec![]
    };
    let aimed2 = aimed.clone();
    let plan_json = json!({"backend": if local_backend {"local"} else {"object-store"}, "retention_days": retention_days, "grace_s": grace_s,
        "faults": faults.iter().map(|f| format!("#{} {:?}", f.index, f.mode)).collect::<Vec<_>>(),
        "aimed_fault": aimed.iter().map(|m| format!("catalog PUT #{} of the compactor {:?}", m.nth, m.mode)).collect::<Vec<_>>(),
        "lost_cas_burst": contention.map(|(f, c)| format!("conditional PUTs #{}..#{}", f, f + c)),
        "chunks": plans.iter().map(|p| format!("{} rows={}", p.0, p.1.len())).collect::<Vec<_>>(), "cycles": ncycles, "query_actors": nqueries, "restart": restart, "operator_removes_a_chunk_before_restart_loop": admin_delete});
    let plans2 = plans.clone();
    let cfg2 = cfg.clone();

    let res: Res = sim::run_sim(async move {
        clock::freeze_wall(now0);
        let ctl = Ctl::new();
        let registry = ChunkPinRegistry::new();
        let local = Arc::new(LocalMetadataClient::new());
        let mk_meta = |ctl: &Arc<Ctl>, actor: &str| -> Arc<dyn MetadataClient> {
            if local_backend {
                RecMeta::new(local.clone(), ctl.clone(), &format!("{}.meta", actor))
            } else {
                RecMeta::new(
                    Arc::new(ObjectStoreMetadataClient::new(ctl.store(actor), ObjectStoreMetadataConfig::default())),
                    ctl.clone(),
                    &format!("{}.meta", actor),
                )
            }
        };
        // dataset
        let seed_meta = mk_meta(&ctl, "seed");
        let ing = Ingester::new(no_wal_ingester_config(), ctl.store("seed"), seed_meta.clone(), sc(), MetricSchema::default_metrics());
        let mut next = idx as i64 * 100_000;
        for (_label, ts) in &plans2 {
            let rows: Vec<RowSpec> = ts
                .iter()
                .map(|t| {
                    next += 1;
                    RowSpec { id: next, ts: *t, metric: "m".into(), host: Some("h".into()), value: 1.0 }
                })
                .collect();
            if let Err(e) = ing.write(rows::make_batch(SchemaKind::B, &rows)).await {
                return Res { events: vec![], decisions: String::new(), hung: false, deletes: vec![], chunk_meta: BTreeMap::new(), local_history: vec![],
                    persisted_before_restart: vec![], restart_done: false, restart_clock_after_grace: false, final_objects: BTreeSet::new(), final_pinned: BTreeSet::new(), query_results: vec![], setup_err: Some(e.to_string()) };
            }
        }
        let mut chunk_meta: BTreeMap<String, (i64, i64)> = BTreeMap::new();
        let mut local_history: Vec<(u64, i64, BTreeSet<String>)> = vec![];
        let snap = |local: Arc<LocalMetadataClient>| async move {
            local.list_chunks().await.map(|v| v.into_iter().map(|e| (e.chunk_path.trim_start_matches('/').to_string(), e.min_timestamp, e.max_timestamp)).collect::<Vec<_>>()).unwrap_or_default()
        };
        if local_backend {
            let s = snap(local.clone()).await;
            for (p, a, b) in &s {
                chunk_meta.insert(p.clone(), (*a, *b));
            }
            local_history.push((ctl.events_len() as u64, clock::wall_ns(), s.into_iter().map(|x| x.0).collect()));
        }
        // observers
        let deletes: Arc<Mutex<Vec<(String, i64, bool)>>> = Arc::new(Mutex::new(vec![]));
        {
            let d = deletes.clone();
            let r = registry.clone();
            *ctl.on_delete.lock() = Some(Arc::new(move |p: &str| {
                // (pinned under the catalog's spelling of the path - with or without the leading slash)
                d.lock().push((p.to_string(), clock::wall_ns(), r.is_pinned(p) || r.is_pinned(&format!("/{}", p))));
            }));
        }
        let start = 0usize;
        // gates: everything except catalog-call wrappers on the object-store backend
        if !local_backend {
            ctl.set_gate_filter(Some(Arc::new(|p: &crate::sim::ParkedInfo| !p.op.starts_with("META:") && !p.actor.starts_with("admin"))));
        } else {
            ctl.set_gate_filter(Some(Arc::new(|p: &crate::sim::ParkedInfo| !p.actor.starts_with("admin"))));
        }
        ctl.set_contention(contention.map(|(from, count)| crate::sim::Contention { path_contains: ".json".into(), from, count }));
        ctl.reset_counters();
        ctl.set_faults(faults2);
        ctl.set_match_faults(aimed2);
        ctl.set_gating(true);
        let monitor = Arc::new(ShardMonitor::new(HotShardConfig::default()));
        let comp = Compactor::new(cfg2.clone(), ctl.store("comp"), mk_meta(&ctl, "comp"), sc(), monitor.clone()).with_pin_registry(registry.clone());
        let ctl2 = ctl.clone();
        let comp_h = sim::spawn_actor("comp", async move {
            for c in 0..ncycles {
                let r = comp.run_compaction_cycle().await;
                ctl2.mark("comp", "CYCLE", &format!("{}", c), &match r {
                    Ok(()) => "ok".to_string(),
                    Err(e) => format!("err: {}", e),
                });
            }
        });
        // query actors
        let query_results: Arc<Mutex<Vec<String>>> = Arc::new(Mutex::new(vec![]));
        let mut qhs = vec![];
        for q in 0..nqueries {
            let name = format!("q{}", q);
            let meta = mk_meta(&ctl, &name);
            let store = ctl.store(&name);
            let reg = registry.clone();
            let qr = query_results.clone();
            // different windows per query: the pinned sets of overlapping queries then differ and overlap partly
            let windows: Vec<(i64, i64)> = (0..3)
                .map(|_| match window_rng.below(5) {
                    0 | 1 => (cutoff0 - 4 * DAY, now0 + DAY),
                    2 => (cutoff0 - 4 * DAY, now0 - 2 * H),
                    3 => (now0 - 2 * H, now0 + DAY),
                    _ => {
                        let a = now0 - window_rng.range(0, 3 * H);
                        (a - H / 2, a)
                    }
                })
                .collect();
            qhs.push(sim::spawn_actor(&name, async move {
                let node = match QueryNode::new(query_config(), store, meta, sc()).await {
                    Ok(n) => n.with_pin_registry(reg),
                    Err(e) => {
                        qr.lock().push(format!("query node: {e}"));
                        return;
                    }
                };
                for (i, (lo, hi)) in windows.into_iter().enumerate() {
                    let sql = format!("SELECT value_i64 FROM metrics WHERE timestamp >= {} AND timestamp <= {}", lo, hi);
                    let r = node.query(&sql).await;
                    qr.lock().push(match r {
                        Ok(b) => format!("q#{} ok rows={}", i, b.iter().map(|x| x.num_rows()).sum::<usize>()),
                        Err(e) => format!("q#{} err {}", i, e.to_string().chars().take(160).collect::<String>()),
                    });
                }
            }));
        }
        let mut sched = Scheduler::new(sched_rng, strategy);
        let mut hung = false;
        let mut restarted: Option<(tokio::task::JoinHandle<()>, tokio_util::sync::CancellationToken)> = None;
        let mut persisted_before_restart = vec![];
        let mut restart_steps = 0u64;
        let mut restart_done = false;
        let mut restart_clock_after_grace = false;
        loop {
            let comp_done = comp_h.is_finished();
            if comp_done && restart && restarted.is_none() {
                // what the old compactor persisted
                if let Ok(g) = ctl.backing.get(&object_store::path::Path::from(format!("{}/metadata/pending-deletions.json", tenant).as_str())).await {
                    if let Ok(b) = g.bytes().await {
                        if let Ok(v) = serde_json::from_slice::<Vec<Value>>(&b) {
                            for e in v {
                                let p = e["path"].as_str().unwrap_or("").to_string();
                                let t = e["scheduled_at"].as_str().and_then(|s| chrono::DateTime::parse_from_rfc3339(s).ok()).and_then(|d| d.timestamp_nanos_opt()).unwrap_or(0);
                                persisted_before_restart.push((p, t));
                            }
                        }
                    }
                }
                // let the grace pass for everything persisted, then start a fresh compactor through run()
                clock::advance_wall((grace_jump_s as i64 + 5) * S);
                ctl.mark("clock", "CLOCK", &format!("+{}s (before restart)", grace_jump_s + 5), "");
                restart_clock_after_grace = grace_s <= 300;
                let c2 = Compactor::new(cfg2.clone(), ctl.store("comp2"), mk_meta(&ctl, "comp2"), sc(), monitor.clone()).with_pin_registry(registry.clone());
                // an operator removes one live chunk by hand on the new instance before its service loop
                // starts (catalog removal, then the public schedule_deletion): a FRESH pending deletion sits
                // in memory when run() merges the persisted, older ones
                if admin_delete {
                    // (the "admin" actor is exempt from the gate: this runs on the scheduler task itself;
                    // its requests are still logged, so the catalog history sees the removal)
                    let admin = mk_meta(&ctl, "admin");
                    if let Ok(l) = admin.list_chunks().await {
                        if let Some(c) = l.first() {
                            if admin.delete_chunk(&c.chunk_path).await.is_ok() {
                                c2.schedule_deletion(&c.chunk_path);
                                ctl.mark("admin", "ADMIN_DELETE", &c.chunk_path, "");
                                if local_backend {
                                    // the in-memory catalog has no versions: record the removal now
                                    let s = snap(local.clone()).await;
                                    local_history.push((ctl.events_len() as u64, clock::wall_ns(), s.into_iter().map(|x| x.0).collect()));
                                }
                            }
                        }
                    }
                }
                let tok = c2.shutdown_token();
                let ctl3 = ctl.clone();
                let h = sim::spawn_actor("comp2", async move {
                    c2.run().await;
                    ctl3.mark("comp2", "RUN_RETURNED", "", "");
                });
                restarted = Some((h, tok));
                ctl.mark("comp2", "RESTART", "", "");
            }
            if let Some((h, tok)) = &restarted {
                restart_steps += 1;
                // run() ticks every 200 virtual ms; give it two full cycles' worth of steps, then stop it
                let cycles_seen = ctl.events().iter().filter(|e| e.actor == "comp2.meta" && e.op == "META:cleanup_completed_jobs" && !e.call).count();
                if cycles_seen >= 1 || restart_steps > 4000 {
                    tok.cancel();
                    restart_done = cycles_seen >= 1;
                }
                if h.is_finished() && qhs.iter().all(|q| q.is_finished()) {
                    break;
                }
            } else if comp_done && !restart && qhs.iter().all(|q| q.is_finished()) {
                break;
            }
            if clock_rng.below(1000) < jump_permille {
                sim::barrier().await;
                let d = *clock_rng.pick(&[1i64, 2, 120, 299, 301, 600]);
                clock::advance_wall(d * S);
                ctl.mark("clock", "CLOCK", &format!("+{}s", d), "");
                sched.decisions.push_str(&format!("T{} ", d));
            }
            let st = sched.step(&ctl).await;
            if let Step::Released(_) = st {
                if local_backend {
                    sim::barrier().await;
                    let s = snap(local.clone()).await;
                    for (p, a, b) in &s {
                        chunk_meta.insert(p.clone(), (*a, *b));
                    }
                    let set: BTreeSet<String> = s.into_iter().map(|x| x.0).collect();
                    if local_history.last().map(|l| &l.2) != Some(&set) {
                        local_history.push((ctl.events_len() as u64, clock::wall_ns(), set));
                    }
                }
            }
            if sched.steps > 60_000 {
                hung = true;
                break;
            }
        }
        ctl.set_gating(false);
        ctl.set_contention(None);
        ctl.set_faults(vec![]);
        ctl.set_match_faults(vec![]);
        use futures::StreamExt;
        let mut final_objects = BTreeSet::new();
        let mut ls = ctl.backing.list(None);
        while let Some(Ok(m)) = ls.next().await {
            final_objects.insert(m.location.to_string());
        }
        drop(ls);
        let final_pinned: BTreeSet<String> = final_objects.iter().filter(|p| registry.is_pinned(p)).cloned().collect();
        let dl = deletes.lock().clone();
        let qr = query_results.lock().clone();
        Res { events: ctl.events_from(start), decisions: sched.decisions.clone(), hung, deletes: dl, chunk_meta, local_history, persisted_before_restart,
            restart_done, restart_clock_after_grace, final_objects, final_pinned, query_results: qr, setup_err: None }
    });
    if let Some(e) = res.setup_err {
        out.inconclusive(&format!("scenario {idx}: {e}"));
        return;
    }
    out.eval();
    if res.hung {
        out.inconclusive(&format!("scenario {idx} did not finish within 60000 steps"));
        return;
    }
    let witness = |extra: Value| {
        json!({"scenario_index": idx, "seed": ctx.seed, "plan": plan_json, "decisions": res.decisions.chars().take(2000).collect::<String>(), "detail": extra,
            "queries": res.query_results,
            "events": res.events.iter().filter(|e| (e.op == "DELETE" || e.op == "CLOCK" || e.op == "CYCLE" || e.op == "RESTART" || e.op.starts_with("META:delete") || e.op.starts_with("META:swap") || (e.op == "PUT" && e.path.ends_with("catalog.json"))) && !e.call)
                .map(|e| e.brief()).collect::<Vec<_>>()})
    };
    // ---- catalog history: (wall, seq, paths)
    let mut history: Vec<(u64, i64, BTreeSet<String>)> = vec![];
    let mut chunk_meta = res.chunk_meta.clone();
    if local_backend {
        history = res.local_history.clone();
    } else {
        for (seq, _a, payload, _m, _e) in committed_puts(&res.events, "catalog.json") {
            if let Ok(cat) = serde_json::from_slice::<MetadataCatalog>(&payload) {
                for (p, c) in &cat.chunks {
                    chunk_meta.insert(p.trim_start_matches('/').to_string(), (c.base.min_timestamp, c.base.max_timestamp));
                }
                let wall = res.events.iter().find(|e| e.seq == seq).map(|e| e.wall_ns).unwrap_or(0);
                history.push((seq, wall, cat.chunks.keys().map(|k| k.trim_start_matches('/').to_string()).collect()));
            }
        }
    }
    let ever: BTreeSet<String> = history.iter().flat_map(|h| h.2.iter().cloned()).collect();
    let delete_seqs: Vec<u64> = res.events.iter().filter(|e| e.op == "DELETE" && !e.call && e.result != "injected-before").map(|e| e.seq).collect();
    // ---- G1..G4 on every data-file DELETE
    let grace_ns = (grace_s as i128 * S as i128).min(i64::MAX as i128) as i64;
    let mut judged = 0u64;
    for (di, (path, t, pinned)) in res.deletes.iter().enumerate() {
        if !path.ends_with(".parquet") {
            continue;
        }
        let dseq = delete_seqs.get(di).copied().unwrap_or(u64::MAX);
        judged += 1;
        out.count("data_file_deletes_judged", 1);
        if *pinned {
            out.count("deletes_while_pinned", 1);
            out.violation(
                "C09/deleted-while-pinned",
                &format!("{} was deleted at {} while a running query held it pinned", path, t),
                witness(json!({"path": path})),
            );
        }
        if !ever.contains(path) {
            // A data file that no catalog version ever referenced (the output of a compaction whose swap did
            // not commit): it has been unreferenced for its whole life, so what the property demands of its
            // removal is the grace period, counted from its upload, and no pin.
            let uploaded = res.events.iter().find(|e| e.op == "PUT" && !e.call && e.path == *path && (e.result == "ok" || e.result.starts_with("injected-after(applied"))).map(|e| e.wall_ns);
            out.count("deletes_of_never_referenced_files", 1);
            match uploaded {
                Some(u) if *t - u >= grace_ns => {}
                Some(u) => out.violation(
                    "C09/never-referenced-file-deleted-before-grace",
                    &format!("{} (never in the catalog) was uploaded at {} and deleted {} ms later (grace {} s)", path, u, (*t - u) / 1_000_000, grace_s),
                    witness(json!({"path": path})),
                ),
                None => out.violation("C09/deleted-something-never-in-catalog", &format!("{} was deleted; it was never in the catalog and not uploaded in this history", path), witness(json!({"path": path}))),
            }
            continue;
        }
        // catalog state at the time of the delete = last version with wall <= t (versions are in commit order)
        let idx_at = history.iter().rposition(|h| h.0 < dseq);
        let in_catalog_now = idx_at.map(|i| history[i].2.contains(path)).unwrap_or(false);
        if in_catalog_now {
            out.violation(
                "C09/deleted-while-referenced",
                &format!("{} was deleted at {} while the current catalog still lists it", path, t),
                witness(json!({"path": path})),
            );
            continue;
        }
        // unreferenced since: first version after its last presence
        let last_present = history.iter().rposition(|h| h.0 < dseq && h.2.contains(path));
        let removed_at = last_present.and_then(|i| history.get(i + 1)).map(|h| h.1).unwrap_or(*t);
        if *t - removed_at < grace_ns {
            out.violation(
                "C09/deleted-before-grace",
                &format!("{} left the catalog at {} and was deleted {} ms later (grace {} s)", path, removed_at, (*t - removed_at) / 1_000_000, grace_s),
                witness(json!({"path": path})),
            );
        }
    }
    // ---- R1: retention removals (delete_chunk calls of the compactors)
    let skew_ns = BoundedClock::default().max_skew().as_nanos() as i64;
    let mut retention_removals = 0u64;
    for e in res.events.iter().filter(|e| !e.call && e.op == "META:delete_chunk" && e.actor.starts_with("comp") && e.result.starts_with("ok")) {
        retention_removals += 1;
        let cutoff = (e.wall_ns as i128 - retention_days as i128 * DAY as i128 - skew_ns as i128).clamp(i64::MIN as i128, i64::MAX as i128) as i64;
        match chunk_meta.get(e.path.trim_start_matches('/')) {
            Some((_mn, mx)) => {
                if *mx > cutoff {
                    out.violation(
                        "C09/retention-dropped-chunk-with-rows-inside-window",
                        &format!("retention ({} d) removed {} whose newest row ({}) is {} s newer than the cut-off", retention_days, e.path, mx, ((*mx as i128 - cutoff as i128) / S as i128)),
                        witness(json!({"path": e.path, "max_timestamp": mx, "cutoff": cutoff})),
                    );
                }
            }
            None => out.violation("C09/retention-removed-unknown-chunk", &e.path, witness(json!(null))),
        }
    }
    out.count("retention_removals_judged", retention_removals);
    out.count(
        "retention_deletes_reported_failed",
        res.events.iter().filter(|e| !e.call && e.op == "META:delete_chunk" && e.actor.starts_with("comp") && !e.result.starts_with("ok")).count() as u64,
    );
    // ---- P1: persisted deletions carried out after restart
    // (only in histories without an injected storage error: the property's quantifier has none, and a DELETE or a
    //  load of the pending list that the store refuses is not "carried out" by construction; the safety rules
    //  above are judged with faults all the same)
    let fault_hit = res.events.iter().any(|e| e.result.starts_with("injected"));
    if fault_hit {
        out.count("scenarios_with_an_injected_fault_hit", 1);
    }
    if restart && res.restart_done && res.restart_clock_after_grace && !fault_hit {
        for (p, _sched) in &res.persisted_before_restart {
            out.count("persisted_deletions_followed", 1);
            let deleted = res.deletes.iter().any(|d| &d.0 == p) || !res.final_objects.contains(p);
            if !deleted && nqueries == 0 {
                out.violation(
                    "C09/persisted-deletion-not-carried-out-after-restart",
                    &format!("{} was persisted as pending, grace has passed, a restarted compactor ran a full cycle, the file is still there", p),
                    witness(json!({"persisted": res.persisted_before_restart})),
                );
            }
        }
    }
    if judged > 0 || retention_removals > 0 {
        out.nontrivial(hash_str(&res.decisions));
    }
    out.count("queries_run", res.query_results.len() as u64);
    out.count("queries_failed", res.query_results.iter().filter(|q| q.contains("err")).count() as u64);
    out.count("queries_refused_because_a_chunk_was_being_deleted", res.query_results.iter().filter(|q| q.contains("being garbage collected")).count() as u64);
    out.count("queries_failed_object_not_found", res.query_results.iter().filter(|q| q.contains("not found")).count() as u64);
    if idx < 3 {
        out.sample(json!({"scenario_index": idx, "plan": plan_json, "data_file_deletes": judged, "retention_removals": retention_removals,
            "queries": res.query_results, "restart_completed_a_cycle": res.restart_done}));
    }
}
