//! C06 — fault-free ingest stores each accepted row exactly once, with exact metadata,
//! and announces each flushed chunk once.
//!
//! STRESS: the real Ingester on real threads (multi-thread runtime), 1–8
//! concurrent writers, alternating schemas (Int64 and Timestamp(ns) time
//! columns, with / without a label column), row- and byte-thresholds, a fast
//! timer flush, a final shutdown flush, sometimes a tiny max buffer so that
//! writes are *rejected*. Two subscribers (legacy broadcast and topic
//! broadcast) exist throughout and drain concurrently. Oracle: the multiset of
//! (canonical) rows in registered chunks equals the multiset of rows of
//! accepted writes; rejected writes are absent; each catalog entry's
//! row_count / min / max equal the decoded chunk; each registered chunk was
//! announced exactly once on each channel.

use crate::outcome::Outcome;
use crate::rng::{hash_str, Rng};
use crate::rows::{self, RowSpec, SchemaKind};
use crate::util;
use crate::Ctx;
use cardinalsin::ingester::{Ingester, IngesterConfig, TopicFilter, WalConfig, WalSyncMode};
use cardinalsin::metadata::{LocalMetadataClient, MetadataClient, ObjectStoreMetadataClient, ObjectStoreMetadataConfig};
use cardinalsin::schema::MetricSchema;
use object_store::memory::InMemory;
use parking_lot::Mutex;
use serde_json::json;
use std::collections::BTreeMap;
use std::path::PathBuf;
use std::sync::Arc;
use std::time::Duration;

fn extreme_value(rng: &mut Rng, id: i64) -> f64 {
    match rng.below(14) {
        0 => 0.0,
        1 => -0.0,
        2 => f64::MIN_POSITIVE / 4.0, // subnormal
        3 => f64::INFINITY,
        4 => f64::NEG_INFINITY,
        5 => f64::NAN,
        6 => f64::MAX,
        7 => f64::MIN,
        8 => 9007199254740993.0,
        _ => id as f64 * 0.25,
    }
}

fn extreme_string(rng: &mut Rng) -> String {
    ["", "a", "héllo wörld", "日本語", "x'y\"z", "a\u{0}b", " lead", "UPPER", "m0", "m1"][rng.usize(10)].to_string()
}

pub fn run(ctx: &Ctx) -> Outcome {
    let mut out = Outcome::new(
        "C06",
        "case = one round: fresh ingester, 1-8 concurrent writers on real threads x 2-10 batches (3 schemas, extreme values, row/byte thresholds, \
         fast timer flush, shutdown flush, sometimes a tiny buffer limit), then the stored rows, catalog entries and announcements are compared with the \
         accepted writes; non-trivial = the round produced at least 2 chunks AND (had >= 2 writers OR a schema switch OR a rejected write), \
         distinct by hash of (round, chunk count, writers)",
    );
    out.assume("no crashes, storage errors or shard splits (fault-free by the property's own premise); subscribers keep up (channel capacity 1024)");
    let rounds: u64 = if ctx.thorough { 14 * 1200 } else { 480 };
    let my = ctx.my_cases(rounds);
    let rt = tokio::runtime::Builder::new_multi_thread().worker_threads(8).enable_all().build().unwrap();
    let root = util::scratch_dir("c06");
    rt.block_on(async {
        for idx in my {
            let mut rng = ctx.rng("C06", idx);
            one_round(ctx, &mut out, &mut rng, idx, &root).await;
        }
    });
    util::remove_dir(&root);
    crate::checks::extreme::lane(ctx, &mut out, "C06");
    let histories: u64 = if ctx.thorough { 14 * 20_000 } else { 8_000 };
    for idx in ctx.my_cases(histories) {
        let mut rng = ctx.rng("C06-buffer", idx);
        buffer_history(ctx, &mut out, &mut rng, idx, "C06");
    }
    out
}

/// Lane BUFFER-MODEL: the write buffer against a list model. Random histories of append (with and without a
/// WAL sequence number), take (with sequence numbers) and prepend (what a failed flush puts back); after every
/// step the buffered batches (identified by their row ids), their sequence numbers, the row and batch counts
/// must equal the model's, take must hand out everything (each batch once, with its own number) and leave the buffer empty.
///
/// Called for C06 (rows: nothing lost, nothing twice, take empties) and for C01 (additionally: every batch keeps
/// the WAL sequence number it was appended with - the flushed mark is computed from those).
pub fn buffer_history(ctx: &Ctx, out: &mut Outcome, rng: &mut Rng, idx: u64, prop: &str) {
    let with_seqs = prop == "C01";
    use cardinalsin::ingester::WriteBuffer;
    let mut buf = WriteBuffer::new();
    let mut model: Vec<(Vec<i64>, u64)> = vec![]; // (row ids of the batch, seq)
    let mut held: Vec<(Vec<arrow_array::RecordBatch>, Vec<u64>, Vec<(Vec<i64>, u64)>)> = vec![]; // taken, not yet put back
    let mut next_id = idx as i64 * 10_000;
    let mut next_seq = 1u64;
    let mut trace: Vec<String> = vec![];
    let n = 4 + rng.usize(14);
    let bad = |out: &mut Outcome, sig: &str, what: String, trace: &Vec<String>| {
        out.violation(&format!("{}/buffer/{}", prop, sig), &format!("after {:?}: {}", trace, what), json!({"lane": "buffer-model", "history": idx, "seed": ctx.seed}));
    };
    for _ in 0..n {
        match rng.below(10) {
            0..=4 => {
                let k = 1 + rng.usize(4);
                let rows: Vec<RowSpec> = (0..k)
                    .map(|_| {
                        next_id += 1;
                        RowSpec { id: next_id, ts: 1_700_000_000_000_000_000 + next_id, metric: "m".into(), host: Some("h".into()), value: 1.0 }
                    })
                    .collect();
                let ids: Vec<i64> = rows.iter().map(|r| r.id).collect();
                let b = rows::make_batch(SchemaKind::B, &rows);
                let seq = if rng.chance(1, 5) {
                    0
                } else {
                    next_seq += 1;
                    next_seq
                };
                let r = if seq == 0 { buf.append(b) } else { buf.append_with_seq(b, seq) };
                trace.push(format!("append({:?}, seq {})", ids, seq));
                if r.is_err() {
                    bad(out, "append-refused", "append returned an error".into(), &trace);
                    return;
                }
                model.push((ids, seq));
            }
            5 | 6 => {
                let (batches, seqs) = buf.take_with_seqs();
                trace.push("take".into());
                // (which end a put-back batch goes to is not the property's business: batches are compared as a
                //  multiset of (row ids, sequence number) pairs - nothing lost, nothing twice, numbers aligned)
                let mut got: Vec<(Vec<i64>, u64)> = batches.iter().map(rows::ids_of).zip(seqs.iter().cloned()).collect();
                got.sort();
                model.sort();
                let same = if with_seqs { got == model } else { got.iter().map(|g| &g.0).eq(model.iter().map(|m| &m.0)) };
                if !same || batches.len() != seqs.len() {
                    bad(out, "take-differs-from-what-was-buffered", format!("take returned {:?}, buffered were {:?}", got, model), &trace);
                    return;
                }
                if !buf.is_empty() || buf.row_count() != 0 || buf.batch_count() != 0 {
                    bad(out, "take-left-something-behind", format!("after take: rows {} batches {}", buf.row_count(), buf.batch_count()), &trace);
                    return;
                }
                if !batches.is_empty() {
                    held.push((batches, seqs, std::mem::take(&mut model)));
                }
                model.clear();
            }
            _ => {
                // a failed flush puts its batches back in front
                if let Some((batches, seqs, mut m)) = held.pop() {
                    trace.push(format!("prepend({} batches)", batches.len()));
                    buf.prepend(batches, seqs);
                    m.append(&mut model);
                    model = m;
                }
            }
        }
        out.eval();
        let want_rows: usize = model.iter().map(|m| m.0.len()).sum();
        if buf.row_count() != want_rows || buf.batch_count() != model.len() || buf.is_empty() != model.is_empty() {
            bad(out, "counts-differ-from-model", format!("rows {} (model {}), batches {} (model {})", buf.row_count(), want_rows, buf.batch_count(), model.len()), &trace);
            return;
        }
    }
    // final take: everything, in order
    let (batches, seqs) = buf.take_with_seqs();
    let mut got: Vec<(Vec<i64>, u64)> = batches.iter().map(rows::ids_of).zip(seqs.iter().cloned()).collect();
    got.sort();
    model.sort();
    let same = if with_seqs { got == model } else { got.iter().map(|g| &g.0).eq(model.iter().map(|m| &m.0)) };
    if !same || batches.len() != seqs.len() {
        bad(out, "take-differs-from-what-was-buffered", format!("final take returned {:?}, buffered were {:?}", got, model), &trace);
        return;
    }
    out.count("buffer_model.histories", 1);
    if trace.iter().any(|t| t.starts_with("prepend")) {
        out.nontrivial(hash_str(&format!("buffer|{:?}", trace)));
    }
}

async fn one_round(ctx: &Ctx, out: &mut Outcome, rng: &mut Rng, idx: u64, root: &str) {
    let store = Arc::new(InMemory::new());
    let local_backend = rng.chance(1, 2);
    let meta: Arc<dyn MetadataClient> = if local_backend {
        Arc::new(LocalMetadataClient::new())
    } else {
        Arc::new(ObjectStoreMetadataClient::new(store.clone(), ObjectStoreMetadataConfig::default()))
    };
    let wal_on = rng.chance(1, 2);
    let wal_dir = format!("{}/r{}", root, idx);
    // a sixth of the rounds: one writer whose batches are exactly one flush each and are now and then sent again
    // verbatim (a client re-sending its samples): two flushes with byte-identical content must both be stored
    let resend = rng.chance(1, 6);
    let tiny_buffer = !resend && rng.chance(1, 5);
    let by_bytes = !resend && rng.chance(1, 4);
    // one round in twelve at the sizes where encoders and batch splitters change behaviour: requests (and hence
    // flushes) of exactly 1024 / 4096 / 8192 / 16384 / 24576 rows and their neighbours, thresholds to match
    let boundary = !resend && !by_bytes && !tiny_buffer && rng.chance(1, 12);
    if boundary {
        out.count("rounds_with_power_of_two_sized_flushes", 1);
    }
    let cfg = IngesterConfig {
        flush_interval: Duration::from_millis(*rng.pick(&[5u64, 20, 10_000])),
        // (now and then the degenerate thresholds: 0 / 1 rows, 0 bytes - every write is a flush)
        flush_row_count: if boundary { *rng.pick(&[1024usize, 4096, 8192, 16384]) } else if by_bytes { 1_000_000 } else if resend { 2 + rng.usize(4) } else if rng.chance(1, 10) { rng.usize(2) } else { 2 + rng.usize(40) },
        flush_size_bytes: if by_bytes { if rng.chance(1, 8) { 0 } else { 2_000 + rng.usize(20_000) } } else { 1 << 30 },
        batch_timeout: Duration::from_millis(5),
        batch_size_bytes: 1 << 20,
        flush_parallelism: 2,
        max_buffer_size_bytes: if tiny_buffer { if rng.chance(1, 6) { 0 } else { 1_500 + rng.usize(6_000) } } else { 1 << 30 },
        wal: WalConfig { wal_dir: PathBuf::from(&wal_dir), max_segment_size: 1 << 16, sync_mode: WalSyncMode::None, enabled: wal_on },
    };
    let cfg_flush_rows = cfg.flush_row_count;
    let cfg_desc = format!(
        "backend={} wal={} flush_rows={} flush_bytes={} interval={:?} max_buffer={}",
        if local_backend { "local" } else { "object-store" },
        wal_on,
        cfg.flush_row_count,
        cfg.flush_size_bytes,
        cfg.flush_interval,
        cfg.max_buffer_size_bytes
    );
    // a fifth of the rounds: uploads (and, on the object-store backend, catalog writes) take 30 ms - longer than the
    // fast flush intervals. A slow store is ordinary operation: every request succeeds.
    let slow = rng.chance(1, 5);
    if slow {
        out.count("rounds_with_a_slow_store", 1);
    }
    let ing_store: Arc<dyn object_store::ObjectStore> = if slow {
        Arc::new(util::SlowStore { inner: store.clone(), put_delay: Duration::from_millis(30) })
    } else {
        store.clone()
    };
    // (every seventh round under an empty tenant prefix: chunk paths with a leading slash)
    let mut sc = crate::checks::c01::storage_config();
    if idx % 7 == 3 {
        sc.tenant_id = String::new();
    }
    let mut ing = Ingester::new(cfg, ing_store, meta.clone(), sc, MetricSchema::default_metrics());
    if wal_on {
        if let Err(e) = ing.ensure_wal().await {
            out.inconclusive(&format!("round {idx}: ensure_wal: {e}"));
            return;
        }
    }
    let ing = Arc::new(ing);
    // subscribers that exist throughout
    let mut legacy_rx = ing.subscribe();
    let mut topic_rx = ing.subscribe_filtered(TopicFilter::All).await;
    let legacy_seen: Arc<Mutex<Vec<Vec<i64>>>> = Arc::new(Mutex::new(vec![]));
    let topic_seen: Arc<Mutex<Vec<Vec<i64>>>> = Arc::new(Mutex::new(vec![]));
    let lagged = Arc::new(Mutex::new(0u64));
    let l2 = legacy_seen.clone();
    let lag2 = lagged.clone();
    let legacy_task = tokio::spawn(async move {
        loop {
            match legacy_rx.recv().await {
                Ok(b) => l2.lock().push(rows::ids_of(&b)),
                Err(tokio::sync::broadcast::error::RecvError::Lagged(n)) => *lag2.lock() += n,
                Err(_) => break,
            }
        }
    });
    let t2 = topic_seen.clone();
    let lag3 = lagged.clone();
    let topic_task = tokio::spawn(async move {
        loop {
            match topic_rx.recv().await {
                Ok(b) => t2.lock().push(rows::ids_of(&b)),
                Err(tokio::sync::broadcast::error::RecvError::Lagged(n)) => *lag3.lock() += n,
                Err(_) => break,
            }
        }
    });
    let ing_t = ing.clone();
    let timer = tokio::spawn(async move { ing_t.run_flush_timer().await });

    // writers
    let nwriters = if resend || boundary { 1 } else { 1 + rng.usize(8) };
    let flush_rows_cfg = cfg_flush_rows;
    let mut next_id = (idx as i64) * 100_000;
    let base_ts: i64 = *rng.pick(&[0i64, 0, 1_700_000_000_000_000_000, 1_699_999_200_000_000_000, -86_400_000_000_000]);
    let accepted: Arc<Mutex<Vec<(SchemaKind, RowSpec)>>> = Arc::new(Mutex::new(vec![]));
    let rejected: Arc<Mutex<Vec<i64>>> = Arc::new(Mutex::new(vec![]));
    let errors: Arc<Mutex<Vec<String>>> = Arc::new(Mutex::new(vec![]));
    let mut schema_kinds = std::collections::BTreeSet::new();
    let mut hs = vec![];
    for _w in 0..nwriters {
        let nb = if boundary { 2 + rng.usize(3) } else { 2 + rng.usize(9) };
        let mut plan = vec![];
        for _ in 0..nb {
            let kind = *rng.pick(&[SchemaKind::A, SchemaKind::A, SchemaKind::B, SchemaKind::T]);
            schema_kinds.insert(format!("{:?}", kind));
            let big = rng.chance(1, 6);
            // ("any row count >= 1": now and then a batch of a few thousand rows)
            let k = if boundary { *rng.pick(&[1024usize, 4096, 8191, 8192, 8192, 8193, 16384, 16384, 24576]) } else if resend { flush_rows_cfg } else if rng.chance(1, 40) { 3000 + rng.usize(6000) } else { 1 + rng.usize(if big { 60 } else { 6 }) };
            let rows: Vec<RowSpec> = (0..k)
                .map(|_| {
                    next_id += 1;
                    RowSpec {
                        id: next_id,
                        // all rows of a round lie within a few hours of the round's base (a chunk spanning
                        // decades makes the hour-bucket index explode, which is not what C06 is about)
                        ts: base_ts
                            + match rng.below(6) {
                                0 => 0,
                                1 => -1,
                                2 => 3_600_000_000_000 - 1,
                                3 => 3_600_000_000_000,
                                _ => rng.range(-7_200_000_000_000, 7_200_000_000_000),
                            },
                        metric: extreme_string(rng),
                        host: if rng.chance(1, 3) { None } else { Some(extreme_string(rng)) },
                        value: extreme_value(rng, next_id),
                    }
                })
                .collect();
            plan.push((kind, rows.clone(), rng.below(3)));
            if resend && rng.chance(1, 2) {
                for _ in 0..1 + rng.usize(2) {
                    plan.push((kind, rows.clone(), 0));
                }
            }
        }
        let ing = ing.clone();
        let accepted = accepted.clone();
        let rejected = rejected.clone();
        let errors = errors.clone();
        hs.push(tokio::spawn(async move {
            for (kind, rows, pause_ms) in plan {
                if pause_ms > 0 {
                    tokio::time::sleep(Duration::from_millis(pause_ms)).await;
                }
                let b = rows::make_batch(kind, &rows);
                match ing.write(b).await {
                    Ok(()) => accepted.lock().extend(rows.into_iter().map(|r| (kind, r))),
                    Err(cardinalsin::Error::BufferFull) => rejected.lock().extend(rows.iter().map(|r| r.id)),
                    Err(e) => errors.lock().push(e.to_string()),
                }
            }
        }));
    }
    for h in hs {
        let _ = h.await;
    }
    ing.shutdown_token().cancel();
    // generous wall-clock watchdogs: their expiry says nothing about the property, the round is not judged
    let w1 = tokio::time::timeout(Duration::from_secs(120), timer).await.is_err();
    // close the channels by dropping the ingester (the timer task, which held the other handle, has ended)
    drop(ing);
    let w2 = tokio::time::timeout(Duration::from_secs(120), legacy_task).await.is_err();
    let w3 = tokio::time::timeout(Duration::from_secs(120), topic_task).await.is_err();
    let _ = std::fs::remove_dir_all(&wal_dir);
    if w1 || w2 || w3 {
        out.count("rounds_not_judged_watchdog_expired", 1);
        out.note(&format!("round {idx}: a 120 s watchdog expired (shutdown flush {w1}, legacy subscriber {w2}, topic subscriber {w3}); round not judged"));
        return;
    }

    out.eval();
    out.count("rounds", 1);
    let errs = errors.lock().clone();
    let witness_base = json!({"round": idx, "seed": ctx.seed, "config": cfg_desc, "writers": nwriters});
    if !errs.is_empty() {
        out.violation(
            "C06/write-error-without-fault",
            &format!("write returned an unexpected error in a fault-free run: {}", errs[0]),
            json!({"base": witness_base, "errors": errs}),
        );
    }
    // ---- stored rows vs accepted rows
    let fresh: Arc<dyn MetadataClient> = if local_backend {
        meta.clone()
    } else {
        Arc::new(ObjectStoreMetadataClient::new(store.clone(), ObjectStoreMetadataConfig::default()))
    };
    let chunks = match fresh.list_chunks().await {
        Ok(c) => c,
        Err(e) => {
            out.violation("C06/list-error", &e.to_string(), witness_base.clone());
            return;
        }
    };
    let mut stored: BTreeMap<i64, Vec<String>> = BTreeMap::new(); // id -> canonical renderings
    let mut chunk_ids: Vec<Vec<i64>> = vec![];
    for c in &chunks {
        let batches = match rows::read_chunk(store.as_ref(), &c.chunk_path).await {
            Ok(b) => b,
            Err(e) => {
                out.violation("C06/registered-chunk-unreadable", &e, witness_base.clone());
                continue;
            }
        };
        let ids: Vec<i64> = batches.iter().flat_map(rows::ids_of).collect();
        let ts: Vec<i64> = batches.iter().flat_map(rows::timestamps_of).collect();
        let canon = batches.iter().map(|b| rows::ordered_rows(std::slice::from_ref(b))).flatten().collect::<Vec<_>>();
        for (i, id) in ids.iter().enumerate() {
            stored.entry(*id).or_default().push(canon[i].clone());
        }
        // exact metadata
        let (mn, mx) = (ts.iter().min().copied().unwrap_or(0), ts.iter().max().copied().unwrap_or(0));
        if c.row_count != ids.len() as u64 || c.min_timestamp != mn || c.max_timestamp != mx {
            out.violation(
                "C06/catalog-entry-differs-from-chunk",
                &format!("catalog says rows={} min={} max={}, the chunk holds rows={} min={} max={}", c.row_count, c.min_timestamp, c.max_timestamp, ids.len(), mn, mx),
                json!({"base": witness_base, "chunk": c.chunk_path}),
            );
        }
        chunk_ids.push(ids);
    }
    out.count("chunks", chunks.len() as u64);
    let acc = accepted.lock().clone();
    out.count("rows_accepted", acc.len() as u64);
    let rej = rejected.lock().clone();
    out.count("rows_rejected", rej.len() as u64);
    let mut missing = vec![];
    let mut wrong = vec![];
    let mut times_accepted: BTreeMap<i64, usize> = BTreeMap::new();
    for (_, r) in &acc {
        *times_accepted.entry(r.id).or_insert(0) += 1;
    }
    if resend {
        out.count("rounds_with_batches_sent_again_verbatim", 1);
    }
    let mut judged_ids = std::collections::BTreeSet::new();
    for (kind, r) in &acc {
        if !judged_ids.insert(r.id) {
            continue;
        }
        let want_n = times_accepted[&r.id];
        let want = rows::ordered_rows(&[rows::make_batch(*kind, std::slice::from_ref(r))]).pop().unwrap();
        match stored.get(&r.id) {
            None => missing.push(r.id),
            Some(v) => {
                if v.len() > want_n {
                    out.violation(
                        "C06/row-stored-more-than-once",
                        &format!("row {} was accepted {} time(s) and is stored {} times", r.id, want_n, v.len()),
                        witness_base.clone(),
                    );
                }
                if v.len() < want_n {
                    missing.push(r.id);
                }
                if v[0] != want {
                    wrong.push(json!({"id": r.id, "written": want, "stored": v[0]}));
                }
            }
        }
    }
    if !missing.is_empty() {
        out.violation(
            "C06/accepted-row-missing",
            &format!("{} accepted row(s) are in no registered chunk after the shutdown flush: {:?}", missing.len(), missing.iter().take(8).collect::<Vec<_>>()),
            json!({"base": witness_base, "missing": missing, "chunks": chunks.len()}),
        );
    }
    if !wrong.is_empty() {
        out.violation("C06/row-value-changed", "a stored row differs from the written row", json!({"base": witness_base, "rows": wrong.iter().take(5).collect::<Vec<_>>()}));
    }
    let accepted_ids: std::collections::BTreeSet<i64> = acc.iter().map(|x| x.1.id).collect();
    for id in stored.keys() {
        if !accepted_ids.contains(id) {
            let sig = if rej.contains(id) { "C06/rejected-write-stored" } else { "C06/unknown-row-stored" };
            out.violation(sig, &format!("row {} is stored but was not accepted", id), witness_base.clone());
        }
    }
    // ---- announcements: every registered chunk exactly once on each channel
    let lag = *lagged.lock();
    if lag > 0 {
        out.count("rounds_with_lag", 1);
    } else {
        for (name, seen) in [("legacy", legacy_seen.lock().clone()), ("topic", topic_seen.lock().clone())] {
            let mut judged: Vec<&Vec<i64>> = vec![];
            for ids in &chunk_ids {
                if judged.contains(&ids) {
                    continue;
                }
                judged.push(ids);
                // chunks are told apart by the rows they hold; chunks with the same rows (a batch sent again
                // verbatim) are announced as often as there are such chunks
                let registered = chunk_ids.iter().filter(|c| *c == ids).count();
                let n = seen.iter().filter(|s| *s == ids).count();
                if n != registered {
                    out.violation(
                        &format!("C06/{}-announcement-count", name),
                        &format!("{} registered chunk(s) of these {} rows, announced {} times on the {} channel", registered, ids.len(), n, name),
                        json!({"base": witness_base, "chunk_ids": ids.iter().take(10).collect::<Vec<_>>(), "announcements": seen.len(), "chunks": chunk_ids.len()}),
                    );
                }
            }
            if seen.len() != chunk_ids.len() {
                out.violation(
                    &format!("C06/{}-announcement-total", name),
                    &format!("{} announcements for {} registered chunks", seen.len(), chunk_ids.len()),
                    witness_base.clone(),
                );
            }
        }
    }
    if chunks.len() >= 2 && (nwriters >= 2 || schema_kinds.len() >= 2 || !rej.is_empty()) {
        out.nontrivial(hash_str(&format!("{}|{}|{}", idx, chunks.len(), nwriters)));
    }
    if idx < 3 {
        out.sample(json!({"round": idx, "config": cfg_desc, "writers": nwriters, "schemas": schema_kinds, "rows_accepted": acc.len(),
            "rows_rejected": rej.len(), "chunks": chunks.len()}));
    }
}
