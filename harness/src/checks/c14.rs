//! C14 — a shard split can be resumed from any interruption and conserves data.
//!
//! Fault enumeration: a fault-free baseline split records its N requests (object
//! store requests, and catalog calls for the in-memory backend); then for every
//! k < N and both fault modes (before / after effect) the split is run up to the
//! fault, all in-memory state is discarded ("crash"), and `resume_split` is
//! called on a fresh splitter (restarting with `execute_split` when it reports
//! that there is nothing to resume), up to 5 fault-free attempts, optionally with
//! a nested second interruption of the resumed run. Virtual time makes the
//! splitter's 10 s / 300 s sleeps free.
//! Oracle at the end: two Active new shards partitioning the old range at the
//! split point, old shard PendingDeletion, no split state, no progress file;
//! rows(old) = rows(A) (+) rows(B) with ts < sp under A and ts >= sp under B, each
//! once; no old-shard object or catalog entry removed before complete_split took
//! effect.

use crate::checks::c01::storage_config;
use crate::clock;
use crate::outcome::Outcome;
use crate::rng::{hash_str, Rng};
use crate::rows::{self, RowSpec, SchemaKind};
use crate::sim::{self, Ctl, Event, Fault, FaultMode};
use crate::simmeta::RecMeta;
use crate::Ctx;
use cardinalsin::ingester::ChunkMetadata;
use cardinalsin::metadata::{LocalMetadataClient, MetadataClient, ObjectStoreMetadataClient, ObjectStoreMetadataConfig};
use cardinalsin::sharding::{ShardMetadata, ShardSplitter, ShardState};
use object_store::ObjectStore;
use serde_json::{json, Value};
use std::collections::BTreeMap;
use std::sync::Arc;

const OLD: &str = "shard-old-7f3a";
const FIVE_MIN: i64 = 300_000_000_000;

#[derive(Clone)]
struct Dataset {
    chunks: Vec<Vec<RowSpec>>,
    min_time: i64,
    max_time: i64,
    split_point: i64,
}

fn gen_dataset(rng: &mut Rng, first_id: i64, big: bool) -> Dataset {
    let sp = FIVE_MIN * (10 + rng.range(0, 5));
    let (min_time, max_time) = (0, 2 * sp + rng.range(0, FIVE_MIN - 1)); // mid rounds down to sp
    let nchunks = 2 + rng.usize(4);
    let mut id = first_id;
    let big_chunk = rng.usize(nchunks);
    let chunks = (0..nchunks)
        .map(|ci| {
            // a "big" dataset has one chunk longer than the back-fill reader's batch size (8192),
            // so that one source chunk yields several copies per side
            let k = if big && ci == big_chunk { 8193 + rng.usize(300) } else { 1 + rng.usize(5) };
            (0..k)
                .map(|_| {
                    id += 1;
                    let ts = match rng.below(6) {
                        0 => sp,
                        1 => sp - 1,
                        2 => sp + 1,
                        3 => rng.range(0, sp - 1),
                        _ => rng.range(sp, 2 * sp),
                    };
                    RowSpec { id, ts, metric: format!("m{}", rng.below(2)), host: Some("h".into()), value: id as f64 }
                })
                .collect()
        })
        .collect();
    Dataset { chunks, min_time, max_time, split_point: sp }
}

fn old_shard_meta(d: &Dataset) -> ShardMetadata {
    ShardMetadata {
        shard_id: OLD.to_string(),
        generation: 0,
        key_range: (vec![0u8; 8], vec![255u8; 8]),
        replicas: vec![],
        state: ShardState::Active,
        min_time: d.min_time,
        max_time: d.max_time,
    }
}

struct RunResult {
    events: Vec<Event>,
    attempts: Vec<String>,
    finished: bool,
    requests_first_run: u64,
    final_state: Value,
    a_rows: Vec<(i64, i64)>, // (id, ts) under new shard A
    b_rows: Vec<(i64, i64)>,
    old_rows_left: usize,
    new_shards: Vec<String>,
    setup_err: Option<String>,
}

/// Contention burst for the next `run_split` (object-store backend): the conditional PUTs number
/// from..from+count of the first run lose their compare-and-swap race (see sim::Contention).
static CONTENTION: parking_lot::Mutex<Option<(u64, u64)>> = parking_lot::Mutex::new(None);

fn run_split(local_backend: bool, d: &Dataset, fault1: Option<Fault>, fault2: Option<(u64, FaultMode)>) -> RunResult {
    let d = d.clone();
    let contention = CONTENTION.lock().take();
    sim::run_sim(async move {
        clock::freeze_wall(clock::SIM_EPOCH_NS);
        let ctl = Ctl::new();
        let local = Arc::new(LocalMetadataClient::new());
        let mk_meta = |ctl: &Arc<Ctl>, actor: &str| -> Arc<dyn MetadataClient> {
            if local_backend {
                RecMeta::new(local.clone(), ctl.clone(), actor)
            } else {
                Arc::new(ObjectStoreMetadataClient::new(ctl.store(actor), ObjectStoreMetadataConfig::default()))
            }
        };
        // ---- dataset: old-shard chunks whose paths carry the shard id, Int64 timestamps
        let seed_meta = mk_meta(&ctl, "seed");
        let seed_store = ctl.store("seed");
        let writer = cardinalsin::ingester::ParquetWriter::new();
        for (i, rows) in d.chunks.iter().enumerate() {
            let b = rows::make_batch(SchemaKind::B, rows);
            let bytes = match writer.write_batch(&b) {
                Ok(x) => x,
                Err(e) => return fail(e.to_string()),
            };
            let path = format!("t/data/shard={}/chunk_{}.parquet", OLD, i);
            let n = bytes.len() as u64;
            if let Err(e) = seed_store.put(&object_store::path::Path::from(path.as_str()), bytes.into()).await {
                return fail(e.to_string());
            }
            let ts: Vec<i64> = rows.iter().map(|r| r.ts).collect();
            let md = ChunkMetadata { path: path.clone(), min_timestamp: *ts.iter().min().unwrap(), max_timestamp: *ts.iter().max().unwrap(), row_count: rows.len() as u64, size_bytes: n };
            if let Err(e) = seed_meta.register_chunk(&path, &md).await {
                return fail(e.to_string());
            }
        }
        if let Err(e) = seed_meta.update_shard_metadata(OLD, &old_shard_meta(&d), 0).await {
            return fail(e.to_string());
        }
        let shard = match seed_meta.get_shard_metadata(OLD).await {
            Ok(Some(s)) => s,
            other => return fail(format!("old shard metadata: {:?}", other.map(|o| o.is_some()))),
        };
        let start = ctl.events_len();
        ctl.reset_counters();
        let mut attempts = vec![];
        // ---- first run, possibly interrupted
        if let Some(f) = fault1.clone() {
            ctl.set_faults(vec![f]);
        }
        if let Some((from, count)) = contention {
            ctl.set_contention(Some(sim::Contention { path_contains: ".json".into(), from, count }));
        }
        let r = {
            let sp = ShardSplitter::new(mk_meta(&ctl, "split"), ctl.store("split"));
            sp.execute_split(&shard).await
        };
        let requests_first_run = ctl.request_count(None);
        attempts.push(format!("execute_split -> {}", r.as_ref().map(|_| "ok".to_string()).unwrap_or_else(|e| format!("err: {}", e))));
        let mut finished = r.is_ok();
        ctl.set_faults(vec![]);
        ctl.set_contention(None);
        // ---- crash, then resume on fresh instances
        let mut n = 0;
        while !finished && n < 5 {
            n += 1;
            ctl.mark("harness", "CRASH_RESTART", &format!("{}", n), "");
            if n == 1 {
                if let Some((j, m)) = fault2 {
                    // nested interruption of the resumed run
                    ctl.reset_counters();
                    ctl.set_faults(vec![Fault { actor: None, index: j, mode: m }]);
                }
            } else {
                ctl.set_faults(vec![]);
            }
            let sp = ShardSplitter::new(mk_meta(&ctl, &format!("resume{}", n)), ctl.store(&format!("resume{}", n)));
            match sp.resume_split(OLD).await {
                Ok(true) => {
                    attempts.push(format!("resume#{} -> ok", n));
                    finished = true;
                }
                Ok(false) => {
                    attempts.push(format!("resume#{} -> nothing to resume, restarting", n));
                    // re-read the shard (it may have changed) and start over
                    // (read past the gate: the harness' own look at the catalog must not be the request the
                    // nested fault hits - a failed read here made it restart from stale metadata)
                    let harness_meta: Arc<dyn MetadataClient> = if local_backend {
                        local.clone()
                    } else {
                        Arc::new(ObjectStoreMetadataClient::new(ctl.backing.clone(), ObjectStoreMetadataConfig::default()))
                    };
                    let cur = match harness_meta.get_shard_metadata(OLD).await {
                        Ok(Some(c)) => c,
                        other => {
                            attempts.push(format!("harness could not re-read the old shard: {:?}", other.map(|o| o.is_some())));
                            break;
                        }
                    };
                    if !cur.is_active() {
                        // nothing to resume and the old shard is already deactivated: the split has run
                        // to its end (e.g. only the removal of the progress file was interrupted after it
                        // took effect); the end-state oracle judges what is there
                        attempts.push("nothing to resume and the old shard is no longer active: treated as finished".into());
                        finished = true;
                        break;
                    }
                    match sp.execute_split(&cur).await {
                        Ok(()) => {
                            attempts.push(format!("execute_split (restart #{}) -> ok", n));
                            finished = true;
                        }
                        Err(e) => attempts.push(format!("execute_split (restart #{}) -> err: {}", n, e)),
                    }
                }
                Err(e) => attempts.push(format!("resume#{} -> err: {}", n, e)),
            }
        }
        ctl.set_faults(vec![]);
        // ---- final state
        let fresh = mk_meta(&ctl, "fresh");
        let old_md = fresh.get_shard_metadata(OLD).await.ok().flatten();
        let split_state = fresh.get_split_state(OLD).await.ok().flatten();
        let progress_left = ctl.backing.head(&object_store::path::Path::from(format!("metadata/split-progress/{}.json", OLD).as_str())).await.is_ok();
        let all = fresh.list_chunks().await.unwrap_or_default();
        // new shard ids = first path segment of backfill chunks
        let mut by_shard: BTreeMap<String, Vec<String>> = BTreeMap::new();
        let mut old_left = 0usize;
        for c in &all {
            if c.chunk_path.contains(OLD) {
                old_left += 1;
            } else if let Some(seg) = c.chunk_path.split('/').next() {
                by_shard.entry(seg.to_string()).or_default().push(c.chunk_path.clone());
            }
        }
        // shards created during the run (they may hold no chunk at all)
        for e in ctl.events_from(start) {
            if e.call {
                continue;
            }
            let id = if e.op == "PUT" && e.path.contains("shards") && e.path.ends_with(".json") {
                e.path.rsplit('/').next().map(|f| f.trim_end_matches(".json").to_string())
            } else if e.op == "META:update_shard_metadata" {
                e.path.split('|').next().map(|s| s.to_string())
            } else {
                None
            };
            if let Some(id) = id {
                if id != OLD && (e.result.starts_with("ok") || e.result.contains("applied")) {
                    by_shard.entry(id).or_default();
                }
            }
        }
        let mut shards_json = vec![];
        let mut a_rows = vec![];
        let mut b_rows = vec![];
        let mut new_shards = vec![];
        for (sid, paths) in &by_shard {
            let md = fresh.get_shard_metadata(sid).await.ok().flatten();
            let mut rows_here = vec![];
            for p in paths {
                if let Ok(bs) = rows::read_chunk(ctl.backing.as_ref(), p).await {
                    for b in &bs {
                        let ids = rows::ids_of(b);
                        let ts = rows::timestamps_of(b);
                        rows_here.extend(ids.into_iter().zip(ts.into_iter()));
                    }
                }
            }
            let is_a = md.as_ref().map(|m| m.key_range.0 == vec![0u8; 8]).unwrap_or(false);
            shards_json.push(json!({"shard": sid, "metadata": md.as_ref().map(|m| format!("gen={} state={:?} range=({:?},{:?})", m.generation, m.state, m.key_range.0, m.key_range.1)), "rows": rows_here.len()}));
            new_shards.push(sid.clone());
            if is_a {
                a_rows.extend(rows_here);
            } else {
                b_rows.extend(rows_here);
            }
        }
        let sp_bytes = d.split_point.to_be_bytes().to_vec();
        let mut shape_ok = by_shard.len() == 2;
        for sid in by_shard.keys() {
            match fresh.get_shard_metadata(sid).await.ok().flatten() {
                Some(m) => {
                    let a_shape = m.key_range == (vec![0u8; 8], sp_bytes.clone());
                    let b_shape = m.key_range == (sp_bytes.clone(), vec![255u8; 8]);
                    if !(m.is_active() && (a_shape || b_shape)) {
                        shape_ok = false;
                    }
                }
                None => shape_ok = false,
            }
        }
        let final_state = json!({
            "old_shard": old_md.as_ref().map(|m| format!("gen={} state={:?}", m.generation, m.state)),
            "old_shard_pending_deletion": old_md.as_ref().map(|m| matches!(m.state, ShardState::PendingDeletion { .. })).unwrap_or(false),
            "split_state_left": split_state.is_some(),
            "progress_file_left": progress_left,
            "new_shards": shards_json,
            "new_shards_shape_ok": shape_ok,
            "old_chunks_left_in_catalog": old_left,
        });
        RunResult { events: ctl.events_from(start), attempts, finished, requests_first_run, final_state, a_rows, b_rows, old_rows_left: old_left, new_shards, setup_err: None }
    })
}

fn fail(e: String) -> RunResult {
    RunResult { events: vec![], attempts: vec![], finished: false, requests_first_run: 0, final_state: json!(null), a_rows: vec![], b_rows: vec![], old_rows_left: 0, new_shards: vec![], setup_err: Some(e) }
}

pub fn run(ctx: &Ctx) -> Outcome {
    let mut out = Outcome::new(
        "C14",
        "case = one interrupted split: (dataset, backend, request index k of the fault-free run, fault mode before/after effect[, nested second \
         interruption]) followed by crash + resume up to 5 times; quick: every k x both modes on two datasets per backend plus sampled nested \
         interruptions; thorough: more datasets and nested interruptions enumerated for the cut-over steps; non-trivial = the fault actually hit \
         (the first run returned an error), distinct by hash of (dataset, backend, k, mode, nested)",
    );
    out.assume("a crash loses all in-memory state of the splitter; the object store and the catalog keep what was applied; virtual time (the 10 s and 300 s sleeps cost nothing)");
    out.exhaustive = false;
    let datasets: u64 = if ctx.thorough { 14 * 2 } else { 12 };
    for di in ctx.my_cases(datasets) {
        let mut rng = ctx.rng("C14", di);
        let big = di % 6 >= 4;
        let d = gen_dataset(&mut rng, di as i64 * 100_000, big);
        if big {
            out.count("datasets_with_a_chunk_over_8192_rows", 1);
        }
        let local_backend = di % 2 == 1;
        // baseline
        let base = run_split(local_backend, &d, None, None);
        if let Some(e) = base.setup_err {
            out.inconclusive(&format!("dataset {di}: setup failed: {e}"));
            continue;
        }
        out.eval();
        judge(ctx, &mut out, &d, di, local_backend, None, None, &base);
        if !base.finished {
            out.inconclusive(&format!("dataset {di}: the fault-free baseline split did not finish: {:?}", base.attempts));
            continue;
        }
        let n = base.requests_first_run;
        out.count("requests_in_fault_free_split", n);
        out.max("max:requests_in_fault_free_split", n);
        // lost compare-and-swap races: a burst of 5 (the metadata client's whole retry budget) or 2
        // (absorbed by the retries) starting at every conditional PUT of the fault-free run
        if !local_backend {
            let ncond = base.events.iter().filter(|e| e.call && e.op == "PUT" && e.mode.starts_with("update:") && e.actor == "split").count() as u64;
            out.max("max:conditional_puts_in_fault_free_split", ncond);
            for j in 0..ncond {
                for count in [5u64, 2] {
                    *CONTENTION.lock() = Some((j, count));
                    let r = run_split(local_backend, &d, None, None);
                    out.eval();
                    out.count("runs_with_lost_cas_burst", 1);
                    if r.events.iter().any(|e| e.actor == "contender") {
                        out.count("lost_cas_bursts_that_hit", 1);
                    }
                    judge(ctx, &mut out, &d, di, local_backend, None, None, &r);
                }
            }
        }
        for k in 0..n {
            for mode in [FaultMode::Before, FaultMode::After] {
                let f = Fault { actor: None, index: k, mode };
                let r = run_split(local_backend, &d, Some(f), None);
                out.eval();
                out.count("interrupted_runs", 1);
                judge(ctx, &mut out, &d, di, local_backend, Some((k, mode)), None, &r);
                // nested second interruption of the resumed run
                let nested: Vec<u64> = if ctx.thorough {
                    (0..12).collect()
                } else if rng.chance(1, 4) {
                    vec![rng.below(12)]
                } else {
                    vec![]
                };
                for j in nested {
                    let m2 = if rng.chance(1, 2) { FaultMode::Before } else { FaultMode::After };
                    let r2 = run_split(local_backend, &d, Some(Fault { actor: None, index: k, mode }), Some((j, m2)));
                    out.eval();
                    out.count("nested_interruptions", 1);
                    judge(ctx, &mut out, &d, di, local_backend, Some((k, mode)), Some((j, m2)), &r2);
                }
            }
        }
    }
    clock::unfreeze_wall();
    out
}

fn judge(ctx: &Ctx, out: &mut Outcome, d: &Dataset, di: u64, local_backend: bool, fault: Option<(u64, FaultMode)>, nested: Option<(u64, FaultMode)>, r: &RunResult) {
    let hit = r.attempts.first().map(|a| a.contains("err")).unwrap_or(false);
    if hit {
        out.nontrivial(hash_str(&format!("{}|{}|{:?}|{:?}", di, local_backend, fault, nested)));
        out.count("faults_that_hit", 1);
    }
    // which request was failed (for the signature and the witness)
    let injected: Vec<&Event> = r.events.iter().filter(|e| !e.call && e.result.starts_with("injected")).collect();
    let inj_desc: Vec<String> = injected.iter().map(|e| format!("{} {} {} [{}]", e.actor, e.op, e.path, e.result)).collect();
    let witness = |extra: Value| {
        json!({"dataset_index": di, "seed": ctx.seed, "backend": if local_backend {"local"} else {"object-store"}, "fault": fault.map(|f| format!("request #{} {:?}", f.0, f.1)),
            "nested_fault": nested.map(|f| format!("request #{} of the resumed run {:?}", f.0, f.1)), "injected": inj_desc, "attempts": r.attempts, "final_state": r.final_state, "detail": extra,
            "split_point": d.split_point, "chunks": d.chunks.iter().map(|c| c.iter().map(|x| (x.id, x.ts)).collect::<Vec<_>>()).collect::<Vec<_>>()})
    };
    // classify the interruption point by the request that was failed
    let class = injected
        .first()
        .map(|e| {
            let p = if e.path.contains("split-progress") {
                "progress-file"
            } else if e.path.contains("split-states") || e.op.contains("start_split") || e.op.contains("update_split_progress") || e.op.contains("complete_split") || e.op.contains("get_split_state") {
                "split-state"
            } else if e.path.contains("shards") || e.op.contains("shard_metadata") {
                "shard-metadata"
            } else if e.path.contains("catalog") || e.op.contains("register_chunk") || e.op.contains("get_chunks_for_shard") || e.op.contains("delete_chunk") {
                "catalog"
            } else {
                "data-object"
            };
            format!("{}-{}-{}", p, e.op.replace("META:", ""), if e.result.contains("after") { "after-effect" } else { "before-effect" })
        })
        .unwrap_or_else(|| if r.events.iter().any(|e| e.actor == "contender") { "lost-cas-burst".to_string() } else { "no-fault".to_string() });
    if hit && injected.is_empty() {
        out.count("splits_interrupted_by_retry_exhaustion", 1);
    }
    if !r.finished {
        out.violation(
            &format!("C14/resume-never-succeeds/{}", class),
            &format!("split interrupted at {} could not be completed by 5 fault-free resume attempts: {}", inj_desc.first().cloned().unwrap_or_default(), r.attempts.last().cloned().unwrap_or_default()),
            witness(json!(null)),
        );
        return;
    }
    // ---- end state
    let fs = &r.final_state;
    let mut wrong = vec![];
    if !fs["old_shard_pending_deletion"].as_bool().unwrap_or(false) {
        wrong.push("old shard is not PendingDeletion");
    }
    if fs["split_state_left"].as_bool().unwrap_or(true) {
        wrong.push("split state left behind");
    }
    if fs["progress_file_left"].as_bool().unwrap_or(true) {
        wrong.push("progress file left behind");
    }
    if !fs["new_shards_shape_ok"].as_bool().unwrap_or(false) {
        wrong.push("not exactly two Active new shards partitioning the old range at the split point");
    }
    if !wrong.is_empty() {
        out.violation(&format!("C14/end-state/{}", class), &format!("resumed split finished in a different state: {}", wrong.join("; ")), witness(json!(null)));
    }
    // ---- conservation and sides
    let mut want_a: Vec<i64> = d.chunks.iter().flatten().filter(|x| x.ts < d.split_point).map(|x| x.id).collect();
    let mut want_b: Vec<i64> = d.chunks.iter().flatten().filter(|x| x.ts >= d.split_point).map(|x| x.id).collect();
    want_a.sort();
    want_b.sort();
    let mut got_a: Vec<i64> = r.a_rows.iter().map(|x| x.0).collect();
    let mut got_b: Vec<i64> = r.b_rows.iter().map(|x| x.0).collect();
    got_a.sort();
    got_b.sort();
    if got_a != want_a || got_b != want_b {
        let dup = got_a.windows(2).any(|w| w[0] == w[1]) || got_b.windows(2).any(|w| w[0] == w[1]);
        let missing = want_a.iter().any(|i| !got_a.contains(i)) || want_b.iter().any(|i| !got_b.contains(i));
        let kind = if missing { "rows-missing" } else if dup { "rows-duplicated" } else { "rows-on-wrong-side" };
        out.violation(
            &format!("C14/conservation/{}/{}", kind, class),
            &format!("new shard A holds ids {:?} (expected {:?}); B holds {:?} (expected {:?})", got_a, want_a, got_b, want_b),
            witness(json!(null)),
        );
    }
    // ---- nothing of the old shard removed before the cut-over took effect
    let cutover_seq = r
        .events
        .iter()
        .filter(|e| !e.call && ((e.op == "META:complete_split" && e.result.starts_with("ok")) || (e.op == "PUT" && e.path.contains("split-states") && e.result == "ok")))
        .map(|e| e.seq)
        .last();
    for e in r.events.iter().filter(|e| !e.call && ((e.op == "DELETE" && e.path.contains(OLD) && e.path.ends_with(".parquet")) || (e.op == "META:delete_chunk" && e.path.contains(OLD)))) {
        // the split state must already be gone when old data is removed
        let state_gone_before = if local_backend {
            r.events.iter().any(|x| x.seq < e.seq && !x.call && (x.op == "META:complete_split" && (x.result.starts_with("ok") || x.result.contains("applied"))))
        } else {
            // object-store backend: a committed version of split-states.json that no longer names the old shard
            let mut calls: BTreeMap<u64, &Event> = BTreeMap::new();
            let mut gone = false;
            for x in r.events.iter().filter(|x| x.seq < e.seq && x.op == "PUT" && x.path.contains("split-states")) {
                if x.call {
                    calls.insert(x.req, x);
                } else if x.result == "ok" || x.result.contains("applied") {
                    if let Some(c) = calls.get(&x.req) {
                        let body = c.payload.as_ref().map(|b| String::from_utf8_lossy(b).to_string()).unwrap_or_default();
                        gone = !body.contains(OLD);
                    }
                }
            }
            gone
        };
        if !state_gone_before {
            out.violation(&format!("C14/old-data-removed-before-cutover/{}", class), &format!("{} {} before complete_split took effect", e.op, e.path), witness(json!(null)));
        }
    }
    let _ = cutover_seq;
    if fault.is_none() || (fault.map(|f| f.0 % 17 == 0).unwrap_or(false) && nested.is_none() && hit) {
        out.sample(json!({"dataset_index": di, "backend": if local_backend {"local"} else {"object-store"}, "fault": fault.map(|f| format!("#{} {:?}", f.0, f.1)), "injected": inj_desc,
            "attempts": r.attempts, "rows_in_A": r.a_rows.len(), "rows_in_B": r.b_rows.len()}));
    }
}
