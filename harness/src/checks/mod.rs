//! One workload + monitor per property.

use crate::outcome::Outcome;
use crate::Ctx;

pub mod c01;
pub mod extreme;
pub mod c02;
pub mod c03;
pub mod c04;
pub mod c05;
pub mod c06;
pub mod c07;
pub mod c08;
pub mod c09;
pub mod c10;
pub mod c11;
pub mod c12;
pub mod c13;
pub mod c14;
pub mod c15;
pub mod c16;
pub mod c17;
pub mod c18;
pub mod c19;
pub mod c20;

pub struct Spec {
    pub id: &'static str,
    pub level: &'static str,
    pub shards_quick: u64,
    pub shards_thorough: u64,
    pub min_evaluations: u64,
    pub min_nontrivial: u64,
    /// > 0: thorough tier also runs shard 0/<n> of the quick workload under valgrind memcheck
    pub memcheck_shards: u64,
    pub run: fn(&Ctx) -> Outcome,
}

pub fn spec(id: &str) -> Option<Spec> {
    Some(match id {
        "C08" => Spec {
            id: "C08",
            level: "exploration",
            shards_quick: 8,
            shards_thorough: 14,
            min_evaluations: 1_000,
            min_nontrivial: 300,
            memcheck_shards: 0,
            run: c08::run,
        },
        "C09" => Spec {
            id: "C09",
            level: "exploration",
            shards_quick: 8,
            shards_thorough: 14,
            min_evaluations: 100,
            min_nontrivial: 40,
            memcheck_shards: 0,
            run: c09::run,
        },
        "C10" => Spec {
            id: "C10",
            level: "exploration",
            shards_quick: 8,
            shards_thorough: 14,
            min_evaluations: 100,
            min_nontrivial: 50,
            memcheck_shards: 0,
            run: c10::run,
        },
        "C11" => Spec {
            id: "C11",
            level: "exploration",
            shards_quick: 8,
            shards_thorough: 14,
            min_evaluations: 300,
            min_nontrivial: 150,
            memcheck_shards: 16,
            run: c11::run,
        },
        "C12" => Spec {
            id: "C12",
            level: "exploration",
            shards_quick: 4,
            shards_thorough: 14,
            min_evaluations: 10_000,
            min_nontrivial: 500,
            memcheck_shards: 100,
            run: c12::run,
        },
        "C01" => Spec {
            id: "C01",
            level: "fault_enumeration",
            shards_quick: 8,
            shards_thorough: 14,
            min_evaluations: 300,
            min_nontrivial: 100,
            memcheck_shards: 0,
            run: c01::run,
        },
        "C02" => Spec {
            id: "C02",
            level: "exploration",
            shards_quick: 8,
            shards_thorough: 14,
            min_evaluations: 500,
            min_nontrivial: 200,
            memcheck_shards: 0,
            run: c02::run,
        },
        "C03" => Spec {
            id: "C03",
            level: "exploration",
            shards_quick: 8,
            shards_thorough: 14,
            min_evaluations: 100,
            min_nontrivial: 40,
            memcheck_shards: 0,
            run: c03::run,
        },
        "C04" => Spec {
            id: "C04",
            level: "exploration",
            shards_quick: 8,
            shards_thorough: 14,
            min_evaluations: 1_000,
            min_nontrivial: 200,
            memcheck_shards: 48,
            run: c04::run,
        },
        "C05" => Spec {
            id: "C05",
            level: "fault_enumeration",
            shards_quick: 8,
            shards_thorough: 14,
            min_evaluations: 500,
            min_nontrivial: 200,
            memcheck_shards: 8,
            run: c05::run,
        },
        "C06" => Spec {
            id: "C06",
            level: "exploration",
            shards_quick: 4,
            shards_thorough: 7,
            min_evaluations: 100,
            min_nontrivial: 50,
            memcheck_shards: 16,
            run: c06::run,
        },
        "C07" => Spec {
            id: "C07",
            level: "exploration",
            shards_quick: 4,
            shards_thorough: 14,
            min_evaluations: 10_000,
            min_nontrivial: 1_000,
            memcheck_shards: 60,
            run: c07::run,
        },
        "C13" => Spec {
            id: "C13",
            level: "exploration",
            shards_quick: 8,
            shards_thorough: 14,
            min_evaluations: 1_000,
            min_nontrivial: 300,
            memcheck_shards: 0,
            run: c13::run,
        },
        "C14" => Spec {
            id: "C14",
            level: "fault_enumeration",
            shards_quick: 4,
            shards_thorough: 14,
            min_evaluations: 100,
            min_nontrivial: 50,
            memcheck_shards: 0,
            run: c14::run,
        },
        "C15" => Spec {
            id: "C15",
            level: "exploration",
            shards_quick: 8,
            shards_thorough: 14,
            min_evaluations: 500,
            min_nontrivial: 200,
            memcheck_shards: 0,
            run: c15::run,
        },
        "C16" => Spec {
            id: "C16",
            level: "exploration",
            shards_quick: 6,
            shards_thorough: 12,
            min_evaluations: 10_000,
            min_nontrivial: 2_000,
            memcheck_shards: 60,
            run: c16::run,
        },
        "C17" => Spec {
            id: "C17",
            level: "exploration",
            shards_quick: 8,
            shards_thorough: 14,
            min_evaluations: 5_000,
            min_nontrivial: 1_000,
            memcheck_shards: 40,
            run: c17::run,
        },
        "C18" => Spec {
            id: "C18",
            level: "exploration",
            shards_quick: 8,
            shards_thorough: 14,
            min_evaluations: 5_000,
            min_nontrivial: 1_000,
            memcheck_shards: 24,
            run: c18::run,
        },
        "C19" => Spec {
            id: "C19",
            level: "exploration",
            shards_quick: 8,
            shards_thorough: 14,
            min_evaluations: 1_000,
            min_nontrivial: 200,
            memcheck_shards: 0,
            run: c19::run,
        },
        "C20" => Spec {
            id: "C20",
            level: "exploration",
            shards_quick: 8,
            shards_thorough: 14,
            min_evaluations: 100,
            min_nontrivial: 40,
            memcheck_shards: 0,
            run: c20::run,
        },
        _ => return None,
    })
}
