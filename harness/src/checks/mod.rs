//! One workload + monitor per property.

use crate::outcome::Outcome;
use crate::Ctx;

pub mod c12;

pub struct Spec {
    pub id: &'static str,
    pub level: &'static str,
    pub shards_quick: u64,
    pub shards_thorough: u64,
    pub min_evaluations: u64,
    pub min_nontrivial: u64,
    pub run: fn(&Ctx) -> Outcome,
}

pub fn spec(id: &str) -> Option<Spec> {
    Some(match id {
        "C12" => Spec {
            id: "C12",
            level: "exploration",
            shards_quick: 4,
            shards_thorough: 14,
            min_evaluations: 10_000,
            min_nontrivial: 500,
            run: c12::run,
        },
        _ => return None,
    })
}
