//! C19 — write routing always terminates on a node that can accept writes.
//!
//! Random membership / health histories (register any type, heartbeat, drain,
//! load change, remove, real health checks with aged heartbeats, rebalance) x
//! three assignment strategies x routes of a few shard ids. Each batch of
//! histories runs in a worker process, so that a route_write that recurses
//! until the stack is exhausted is a recorded outcome, not a harness death.
//! Primary detector for non-termination is a logical step count taken from the
//! code's own trace events ("... cannot accept writes, reassigning"): more than
//! 2*|nodes|+4 reassignments within one route_write is reported and the call is
//! aborted. Other monitors: the returned node is eligible in the registry at
//! return; a shard's assignment only moves when its node stopped being eligible,
//! left the registry, or a rebalance ran.

use crate::clock;
use crate::outcome::Outcome;
use crate::rng::{hash_str, Rng};
use crate::util;
use crate::Ctx;
use cardinalsin::cluster::{AssignmentStrategy, DistributedWriteRouter, NodeInfo, NodeRegistry, NodeStatus, NodeType, ShardAssignment};
use futures::FutureExt;
use serde_json::{json, Value};
use std::collections::HashMap;
use std::io::Write;
use std::sync::atomic::{AtomicU64, Ordering};
use std::sync::Arc;

static REASSIGN_EVENTS: AtomicU64 = AtomicU64::new(0);
static REASSIGN_LIMIT: AtomicU64 = AtomicU64::new(u64::MAX);

struct StepCounter;
struct MsgVisitor(String);
impl tracing::field::Visit for MsgVisitor {
    fn record_debug(&mut self, field: &tracing::field::Field, value: &dyn std::fmt::Debug) {
        if field.name() == "message" {
            self.0 = format!("{:?}", value);
        }
    }
}
impl<S: tracing::Subscriber> tracing_subscriber::Layer<S> for StepCounter {
    fn on_event(&self, event: &tracing::Event<'_>, _ctx: tracing_subscriber::layer::Context<'_, S>) {
        if *event.metadata().level() != tracing::Level::WARN {
            return;
        }
        let mut v = MsgVisitor(String::new());
        event.record(&mut v);
        if v.0.contains("cannot accept writes, reassigning") {
            let n = REASSIGN_EVENTS.fetch_add(1, Ordering::Relaxed) + 1;
            if n > REASSIGN_LIMIT.load(Ordering::Relaxed) {
                // abort the call under observation: unwinds through route_write into catch_unwind
                panic!("csverif: reassignment bound exceeded");
            }
        }
    }
}

pub fn run(ctx: &Ctx) -> Outcome {
    let mut out = Outcome::new(
        "C19",
        "case = one route_write call inside a random membership/health history (3 strategies, 1-6 nodes of any type/status/load, 1-8 shard ids); \
         non-trivial = the call happened while the shard's previously assigned node was ineligible or gone (a reassignment was needed), distinct by \
         hash of (history, op index)",
    );
    out.assume("single router instance, sequential histories (the property quantifies over histories and configurations, not schedules)");
    let histories: u64 = if ctx.thorough { 14 * 200_000 } else { 60_000 };
    let my = ctx.my_cases(histories);
    // worker processes: a batch each, restarted after a death
    let exe = std::env::current_exe().expect("exe");
    let dir = util::scratch_dir("c19");
    let mut from = my.start;
    let mut deaths = 0;
    while from < my.end {
        let outp = format!("{}/w{}.jsonl", dir, from);
        let status = std::process::Command::new(&exe)
            .arg("C19-worker")
            .arg("--seed")
            .arg(ctx.seed.to_string())
            .arg("--shard")
            .arg(format!("{}/{}", from, my.end))
            .arg("--out")
            .arg(&outp)
            .stdout(std::process::Stdio::null())
            .stderr(std::process::Stdio::null())
            .status();
        let text = std::fs::read_to_string(&outp).unwrap_or_default();
        let mut last_begin: Option<(u64, Value)> = None;
        let mut done_upto = from;
        for line in text.lines() {
            let Ok(v) = serde_json::from_str::<Value>(line) else { continue };
            match v["t"].as_str() {
                Some("begin") => last_begin = Some((v["h"].as_u64().unwrap_or(0), v.clone())),
                Some("done") => {
                    done_upto = v["h"].as_u64().unwrap_or(0) + 1;
                    last_begin = None;
                    out.evaluations += v["routes"].as_u64().unwrap_or(0);
                    out.count("histories", 1);
                    out.count("route_write_calls", v["routes"].as_u64().unwrap_or(0));
                    out.count("reassignments_needed", v["needed"].as_u64().unwrap_or(0));
                    out.count("routes_returning_error", v["errors"].as_u64().unwrap_or(0));
                    out.max("max:reassign_steps_in_one_call", v["max_steps"].as_u64().unwrap_or(0));
                    for h in v["nontrivial"].as_array().cloned().unwrap_or_default() {
                        out.nontrivial(h.as_u64().unwrap_or(0));
                    }
                    for viol in v["violations"].as_array().cloned().unwrap_or_default() {
                        out.violation(viol["sig"].as_str().unwrap_or("C19/unknown"), viol["what"].as_str().unwrap_or(""), viol["witness"].clone());
                    }
                    if let Some(s) = v.get("sample") {
                        if !s.is_null() {
                            out.sample(s.clone());
                        }
                    }
                }
                _ => {}
            }
        }
        let ok = status.as_ref().map(|s| s.success()).unwrap_or(false);
        if ok {
            break;
        }
        // the worker died: the history it was in is the witness
        deaths += 1;
        match last_begin {
            Some((h, v)) => {
                out.violation(
                    "C19/route-write-killed-the-process",
                    &format!("the worker process died ({:?}) inside route_write of history {}", status, h),
                    json!({"history_index": h, "seed": ctx.seed, "history_so_far": v["ops"], "strategy": v["strategy"]}),
                );
                from = h + 1;
            }
            None => {
                out.inconclusive(&format!("C19 worker died outside a route_write call ({:?})", status));
                from = done_upto + 1;
            }
        }
        if deaths > 200 {
            out.inconclusive("more than 200 worker deaths");
            break;
        }
    }
    util::remove_dir(&dir);
    out
}

#[derive(Clone, Debug)]
struct ModelNode {
    ty: NodeType,
    status: NodeStatus,
    load: u8,
}
fn eligible(n: &ModelNode) -> bool {
    matches!(n.status, NodeStatus::Healthy) && matches!(n.ty, NodeType::Ingester | NodeType::Combined) && n.load < 95
}

/// Worker: histories [from, to), one JSON line per event to `out`.
pub fn worker(seed: u64, from: u64, to: u64, out_path: &str) {
    use tracing_subscriber::layer::SubscriberExt;
    let sub = tracing_subscriber::registry().with(StepCounter);
    let _ = tracing::subscriber::set_global_default(sub);
    let mut f = std::fs::OpenOptions::new().create(true).append(true).open(out_path).expect("worker out");
    let rt = tokio::runtime::Builder::new_current_thread().enable_all().start_paused(true).build().unwrap();
    for h in from..to {
        let mut rng = Rng::derive(seed, "C19", 0, h);
        let strategy = *rng.pick(&[AssignmentStrategy::ConsistentHash, AssignmentStrategy::RoundRobin, AssignmentStrategy::LoadBased]);
        let line = rt.block_on(history(&mut rng, h, strategy, &mut f, seed));
        writeln!(f, "{}", line).ok();
        f.flush().ok();
    }
}

async fn history(rng: &mut Rng, h: u64, strategy: AssignmentStrategy, f: &mut std::fs::File, seed: u64) -> String {
    let timeout_s = *rng.pick(&[1u64, 10, 30]);
    let registry = Arc::new(NodeRegistry::new(timeout_s));
    let assign = Arc::new(ShardAssignment::new(registry.clone(), strategy));
    let router = DistributedWriteRouter::new(assign.clone(), registry.clone());
    let reg2 = registry.clone();
    let health = tokio::spawn(async move { reg2.run_health_checks().await });
    let mut model: HashMap<String, ModelNode> = HashMap::new();
    let mut ops: Vec<String> = vec![];
    let mut violations: Vec<Value> = vec![];
    let mut nontrivial: Vec<u64> = vec![];
    let (mut routes, mut needed, mut errors, mut max_steps) = (0u64, 0u64, 0u64, 0u64);
    let nops = 6 + rng.usize(30);
    let node_names: Vec<String> = (0..6).map(|i| format!("n{}", i)).collect();
    let shard_names: Vec<String> = (0..8).map(|i| format!("shard-{}", i)).collect();
    let mut rebalanced_since: HashMap<String, bool> = HashMap::new();
    for opi in 0..nops {
        let k = rng.below(20);
        let name = rng.pick(&node_names).clone();
        if k < 5 || model.is_empty() {
            let ty = *rng.pick(&[NodeType::Ingester, NodeType::Ingester, NodeType::Combined, NodeType::Query]);
            let mut info = NodeInfo::new(name.clone(), format!("127.0.0.1:{}", 9000 + rng.below(100)).parse().unwrap(), ty);
            info.status = *rng.pick(&[NodeStatus::Healthy, NodeStatus::Healthy, NodeStatus::Healthy, NodeStatus::Suspected, NodeStatus::Failed, NodeStatus::Draining]);
            info.load_percent = *rng.pick(&[0u8, 10, 50, 94, 95, 100]);
            model.insert(name.clone(), ModelNode { ty, status: info.status, load: info.load_percent });
            ops.push(format!("register {} {:?} {:?} load={}", name, ty, info.status, info.load_percent));
            registry.register_node(info).await;
        } else if k < 7 {
            ops.push(format!("drain {}", name));
            registry.drain_node(&name).await;
            if let Some(n) = model.get_mut(&name) {
                n.status = NodeStatus::Draining;
            }
        } else if k < 9 {
            let l = *rng.pick(&[0u8, 50, 94, 95, 99]);
            ops.push(format!("load {} {}", name, l));
            registry.update_load(&name, l).await;
            if let Some(n) = model.get_mut(&name) {
                n.load = l;
            }
        } else if k < 10 {
            ops.push(format!("remove {}", name));
            registry.remove_node(&name).await;
            model.remove(&name);
        } else if k < 11 {
            ops.push(format!("heartbeat {}", name));
            registry.heartbeat(&name).await;
        } else if k < 12 {
            // age every heartbeat and let the real health check run once
            let age = *rng.pick(&[1u64, 6, 20, 40]);
            ops.push(format!("time +{}s and health check", age));
            clock::advance_mono(age as i64 * 1_000_000_000);
            tokio::time::sleep(std::time::Duration::from_secs(6)).await;
        } else if k < 13 {
            ops.push("rebalance".into());
            let _ = assign.rebalance().await;
            for s in &shard_names {
                rebalanced_since.insert(s.clone(), true);
            }
        } else {
            // ---- route a write
            let shard = rng.pick(&shard_names).clone();
            // registry as the code sees it right now
            let before_assign = assign.get_all_assignments().await;
            let prev = before_assign.get(&shard).cloned();
            let prev_eligible = match &prev {
                Some(n) => registry.get_node(n).await.map(|i| i.can_accept_writes()).unwrap_or(false),
                None => false,
            };
            let nnodes = registry.get_all_nodes().await.len() as u64;
            let bound = 2 * nnodes + 4;
            ops.push(format!("route {}", shard));
            writeln!(f, "{}", json!({"t": "begin", "h": h, "op": opi, "strategy": format!("{:?}", strategy), "ops": ops})).ok();
            f.flush().ok();
            REASSIGN_EVENTS.store(0, Ordering::Relaxed);
            REASSIGN_LIMIT.store(bound, Ordering::Relaxed);
            // bounded time on the logical clock: the runtime's time is virtual and only moves while every task is
            // idle, so an hour of it passing means the call was parked with nothing left that could wake it
            let r = match tokio::time::timeout(std::time::Duration::from_secs(3600), std::panic::AssertUnwindSafe(router.route_write(&shard)).catch_unwind()).await {
                Ok(r) => r,
                Err(_) => {
                    REASSIGN_LIMIT.store(u64::MAX, Ordering::Relaxed);
                    routes += 1;
                    violations.push(json!({"sig": format!("C19/route-write-never-returns/{:?}", strategy),
                        "what": format!("route_write({}) was still parked after one hour of virtual time with {} nodes registered (nothing else was runnable; the call was dropped by the monitor)", shard, nnodes),
                        "witness": json!({"history_index": h, "seed": seed, "strategy": format!("{:?}", strategy), "ops": ops})}));
                    continue;
                }
            };
            REASSIGN_LIMIT.store(u64::MAX, Ordering::Relaxed);
            let steps = REASSIGN_EVENTS.load(Ordering::Relaxed);
            routes += 1;
            max_steps = max_steps.max(steps);
            let wit = |extra: Value| json!({"history_index": h, "seed": seed, "strategy": format!("{:?}", strategy), "ops": ops, "detail": extra});
            match r {
                Err(_) => {
                    violations.push(json!({"sig": format!("C19/route-write-does-not-terminate/{:?}", strategy),
                        "what": format!("route_write({}) exceeded {} reassignment steps with {} nodes registered (call aborted by the monitor)", shard, bound, nnodes),
                        "witness": wit(json!({"reassign_steps": steps}))}));
                }
                Ok(Ok(Some(node))) => {
                    let now_ok = registry.get_node(&node.id).await.map(|i| i.can_accept_writes()).unwrap_or(false);
                    // what the history itself says, independently of the registry's bookkeeping: a node that was
                    // drained (and not registered again since), a query-only node and a node whose last reported
                    // load is 95 % or more must not be handed out, whatever status the registry shows for it
                    let by_history = model.get(&node.id).map(|m| m.status != NodeStatus::Draining && m.ty != NodeType::Query && m.load < 95);
                    if by_history == Some(false) && now_ok {
                        violations.push(json!({"sig": "C19/routed-to-ineligible-node",
                            "what": format!("route_write({}) returned node {} which the history makes ineligible (drained / query-only / overloaded: {:?}) although the registry reports it eligible", shard, node.id, model.get(&node.id).map(|m| format!("{:?} {:?} load={}", m.ty, m.status, m.load))),
                            "witness": wit(json!({"node": format!("{:?}", node)}))}));
                    }
                    if !now_ok {
                        violations.push(json!({"sig": "C19/routed-to-ineligible-node",
                            "what": format!("route_write({}) returned node {} which cannot accept writes", shard, node.id),
                            "witness": wit(json!({"node": format!("{:?}", node)}))}));
                    }
                    if let Some(p) = &prev {
                        if prev_eligible && *p != node.id && !rebalanced_since.get(&shard).copied().unwrap_or(false) {
                            violations.push(json!({"sig": "C19/assignment-moved-although-node-eligible",
                                "what": format!("shard {} moved from {} (still eligible, no rebalance) to {}", shard, p, node.id),
                                "witness": wit(json!(null))}));
                        }
                    }
                    // one node at a time: the assignment table must name the returned node
                    let after = assign.get_all_assignments().await;
                    if after.get(&shard) != Some(&node.id) {
                        violations.push(json!({"sig": "C19/assignment-table-disagrees-with-route",
                            "what": format!("route_write({}) returned {} but the table says {:?}", shard, node.id, after.get(&shard)),
                            "witness": wit(json!(null))}));
                    }
                    rebalanced_since.insert(shard.clone(), false);
                }
                Ok(Ok(None)) => {}
                Ok(Err(_)) => errors += 1,
            }
            if prev.is_some() && !prev_eligible {
                needed += 1;
                nontrivial.push(hash_str(&format!("{}|{}", h, opi)));
            }
            // model cross-check of eligibility bookkeeping (harness self-check, not a verdict)
            let _ = model.values().filter(|n| eligible(n)).count();
        }
    }
    health.abort();
    let sample = if h % 997 == 0 { json!({"history_index": h, "strategy": format!("{:?}", strategy), "ops": ops}) } else { Value::Null };
    json!({"t": "done", "h": h, "routes": routes, "needed": needed, "errors": errors, "max_steps": max_steps, "nontrivial": nontrivial,
        "violations": violations, "sample": sample})
    .to_string()
}
