//! C05 — WAL recovery is exact under torn writes; sequence numbers never regress.
//!
//! Random histories of append / flush-mark (truncate + persist_flushed_seq) /
//! clean reopen / crash. A crash is produced with the real encoder: one more,
//! never acknowledged, append is made, the process "dies" (the WAL object is
//! dropped) and the last write is cut at a chosen byte offset (quick: a fixed
//! battery of offsets, thorough: every offset). Each cut is checked on a copy
//! of the directory (side branch: reopen, compare with the model, append,
//! reopen, append, reopen); the main history continues along one of them, for
//! several consecutive crash rounds.

use crate::outcome::Outcome;
use crate::rng::{hash_str, Rng};
use crate::util;
use crate::Ctx;
use arrow_array::{Float64Array, Int64Array, RecordBatch, StringArray};
use arrow_schema::{DataType, Field, Schema};
use cardinalsin::ingester::{load_flushed_seq, persist_flushed_seq, WalConfig, WalSyncMode, WriteAheadLog};
use serde_json::{json, Value};
use std::path::PathBuf;
use std::sync::Arc;

fn batch(rng: &mut Rng, next_id: &mut i64) -> RecordBatch {
    let big = rng.chance(1, 5);
    let n = 1 + rng.usize(if big { 50 } else { 6 });
    let ids: Vec<i64> = (0..n)
        .map(|_| {
            *next_id += 1;
            *next_id
        })
        .collect();
    if rng.chance(1, 2) {
        let schema = Arc::new(Schema::new(vec![
            Field::new("timestamp", DataType::Int64, false),
            Field::new("id", DataType::Int64, false),
        ]));
        RecordBatch::try_new(
            schema,
            vec![
                Arc::new(Int64Array::from(ids.iter().map(|i| i * 1000).collect::<Vec<_>>())),
                Arc::new(Int64Array::from(ids)),
            ],
        )
        .unwrap()
    } else {
        let schema = Arc::new(Schema::new(vec![
            Field::new("timestamp", DataType::Int64, false),
            Field::new("metric_name", DataType::Utf8, true),
            Field::new("v", DataType::Float64, true),
            Field::new("id", DataType::Int64, false),
        ]));
        RecordBatch::try_new(
            schema,
            vec![
                Arc::new(Int64Array::from(ids.iter().map(|i| i * 7).collect::<Vec<_>>())),
                Arc::new(StringArray::from(
                    ids.iter().map(|i| if i % 5 == 0 { None } else { Some(format!("m{}", i % 3)) }).collect::<Vec<_>>(),
                )),
                Arc::new(Float64Array::from(ids.iter().map(|i| *i as f64 * 0.5).collect::<Vec<_>>())),
                Arc::new(Int64Array::from(ids)),
            ],
        )
        .unwrap()
    }
}

#[derive(Clone)]
struct Model {
    /// acknowledged entries in order
    acked: Vec<(u64, RecordBatch)>,
    /// largest bound ever passed to truncate_before (entries >= bound must survive)
    trunc_bound: u64,
    /// largest flushed mark whose persist call returned Ok (or may have hit the disk)
    max_mark: u64,
    /// entries <= this are "flushed to storage": they need not be recovered
    flushed: u64,
    /// complete-but-unacknowledged tail entry that may legitimately be present
    maybe_tail: Option<(u64, RecordBatch)>,
    log: Vec<String>,
    /// directory of the WAL under test (for the durability watch)
    dir: String,
}

fn cfg(dir: &str, seg: usize) -> WalConfig {
    WalConfig {
        wal_dir: PathBuf::from(dir),
        max_segment_size: seg,
        sync_mode: WalSyncMode::EveryWrite,
        enabled: true,
    }
}

fn segments(dir: &str) -> Vec<(String, u64)> {
    let mut v: Vec<(String, u64)> = std::fs::read_dir(dir)
        .map(|rd| {
            rd.filter_map(|e| e.ok())
                .filter(|e| e.file_name().to_string_lossy().starts_with("segment-"))
                .map(|e| (e.path().to_string_lossy().to_string(), e.metadata().map(|m| m.len()).unwrap_or(0)))
                .collect()
        })
        .unwrap_or_default();
    v.sort();
    v
}

struct Viol {
    sig: String,
    what: String,
}

/// Compare what the reopened WAL returns with the model.
fn compare(entries: &[cardinalsin_wal_entry::E], m: &mut Model, stage: &str) -> Vec<Viol> {
    let mut v = vec![];
    let mut last = 0u64;
    let mut present: Vec<u64> = vec![];
    for e in entries {
        if e.seq <= last {
            v.push(Viol {
                sig: "C05/recovery/order-or-duplicate".into(),
                what: format!("{stage}: recovered sequence {} after {}", e.seq, last),
            });
        }
        last = e.seq;
        let decoded = match &e.batches {
            Ok(b) => b,
            Err(err) => {
                v.push(Viol {
                    sig: "C05/recovery/undecodable-entry".into(),
                    what: format!("{stage}: recovered entry seq {} does not decode: {}", e.seq, err),
                });
                continue;
            }
        };
        if let Some((_, b)) = m.acked.iter().find(|(s, _)| *s == e.seq) {
            if decoded.len() != 1 || &decoded[0] != b {
                v.push(Viol {
                    sig: "C05/recovery/payload-differs".into(),
                    what: format!("{stage}: entry seq {} differs from what was appended", e.seq),
                });
            }
            present.push(e.seq);
        } else if m.maybe_tail.as_ref().map(|(s, _)| *s == e.seq).unwrap_or(false) {
            let (s, b) = m.maybe_tail.clone().unwrap();
            if decoded.len() != 1 || decoded[0] != b {
                v.push(Viol {
                    sig: "C05/recovery/payload-differs".into(),
                    what: format!("{stage}: complete tail entry seq {} differs from what was written", s),
                });
            }
            // it is on disk: from now on it is part of the log
            m.acked.push((s, b));
            m.maybe_tail = None;
            present.push(e.seq);
        } else {
            v.push(Viol {
                sig: "C05/recovery/phantom-entry".into(),
                what: format!("{stage}: recovered entry seq {} was never completely written", e.seq),
            });
        }
    }
    // every acknowledged entry at or above the truncation bound must be there
    for (s, _) in &m.acked {
        if *s >= m.trunc_bound && !present.contains(s) {
            v.push(Viol {
                sig: "C05/recovery/acknowledged-entry-missing".into(),
                what: format!("{stage}: acknowledged entry seq {} (truncation bound {}) is not recovered", s, m.trunc_bound),
            });
        }
    }
    // what is present must be a suffix of the acknowledged sequence (truncation is by whole leading segments)
    if let Some(first) = present.first() {
        let expect: Vec<u64> = m.acked.iter().map(|x| x.0).filter(|s| s >= first).collect();
        if expect != present {
            v.push(Viol {
                sig: "C05/recovery/hole".into(),
                what: format!("{stage}: recovered {:?}, acknowledged from there on {:?}", present, expect),
            });
        }
    }
    v
}

/// Thin owned view of a WalEntry (seq + decoded batches).
mod cardinalsin_wal_entry {
    pub struct E {
        pub seq: u64,
        pub batches: Result<Vec<arrow_array::RecordBatch>, String>,
    }
}
use cardinalsin_wal_entry::E;

fn view(wal: &WriteAheadLog) -> Result<Vec<E>, String> {
    wal.read_entries()
        .map(|v| {
            v.into_iter()
                .map(|e| E { seq: e.seq, batches: e.batches().map_err(|x| x.to_string()) })
                .collect()
        })
        .map_err(|e| e.to_string())
}

/// The restart protocol of the ingester (load mark, open, read after mark, truncate) with checks.
async fn restart(dir: &str, seg: usize, m: &mut Model, stage: &str, v: &mut Vec<Viol>) -> Option<WriteAheadLog> {
    let mark = match load_flushed_seq(std::path::Path::new(dir)) {
        Ok(x) => x,
        Err(e) => {
            v.push(Viol { sig: "C05/restart/load-mark-error".into(), what: format!("{stage}: {e}") });
            0
        }
    };
    if mark > m.max_mark {
        v.push(Viol {
            sig: "C05/restart/mark-from-nowhere".into(),
            what: format!("{stage}: loaded flushed mark {} > any mark ever written {}", mark, m.max_mark),
        });
    }
    let mut wal = match WriteAheadLog::open(cfg(dir, seg)).await {
        Ok(w) => w,
        Err(e) => {
            v.push(Viol { sig: "C05/restart/open-error".into(), what: format!("{stage}: open failed: {e}") });
            return None;
        }
    };
    match view(&wal) {
        Ok(es) => v.extend(compare(&es, m, stage)),
        Err(e) => v.push(Viol { sig: "C05/restart/read-error".into(), what: format!("{stage}: read_entries failed: {e}") }),
    }
    // replay set: everything acknowledged and not flushed must be in read_entries_after(mark)
    match wal.read_entries_after(mark) {
        Ok(es) => {
            let got: Vec<u64> = es.iter().map(|e| e.seq).collect();
            for (s, _) in &m.acked {
                if *s > m.flushed && !got.contains(s) {
                    v.push(Viol {
                        sig: "C05/restart/unflushed-entry-not-replayed".into(),
                        what: format!("{stage}: acknowledged entry seq {} (> flushed {}) not in read_entries_after({})", s, m.flushed, mark),
                    });
                }
            }
            if got.iter().any(|s| *s <= mark) {
                v.push(Viol {
                    sig: "C05/restart/replay-includes-flushed".into(),
                    what: format!("{stage}: read_entries_after({}) returned {:?}", mark, got),
                });
            }
        }
        Err(e) => v.push(Viol { sig: "C05/restart/read-error".into(), what: format!("{stage}: read_entries_after failed: {e}") }),
    }
    if mark > 0 {
        if let Err(e) = wal.truncate_before(mark + 1).await {
            v.push(Viol { sig: "C05/restart/truncate-error".into(), what: format!("{stage}: {e}") });
        }
        m.trunc_bound = m.trunc_bound.max(mark + 1);
    }
    Some(wal)
}

async fn checked_append(wal: &mut WriteAheadLog, b: &RecordBatch, m: &mut Model, stage: &str, v: &mut Vec<Viol>) -> Option<u64> {
    match wal.append(b).await {
        Ok(s) => {
            let max_acked = m.acked.iter().map(|x| x.0).max().unwrap_or(0);
            if s <= max_acked {
                v.push(Viol {
                    sig: "C05/sequence/regressed-below-acknowledged".into(),
                    what: format!("{stage}: append returned sequence {} although {} was already acknowledged", s, max_acked),
                });
            }
            if s <= m.max_mark {
                v.push(Viol {
                    sig: "C05/sequence/regressed-below-flushed-mark".into(),
                    what: format!("{stage}: append returned sequence {} <= flushed mark {}", s, m.max_mark),
                });
            }
            Some(s)
                .map(|s| {
                    // sync mode EveryWrite: when append returns, every byte of the log must have been
                    // followed by an fdatasync / fsync (observed through the interposed libc symbols)
                    // (only the active = highest-numbered segment is judged: older segments and copied
                    // directories were synced under another path or by an earlier incarnation)
                    let mut unsynced = crate::clock::unsynced_wal_bytes(&m.dir);
                    unsynced.sort();
                    let active = segments(&m.dir).last().map(|x| std::path::Path::new(&x.0).file_name().unwrap().to_string_lossy().to_string());
                    unsynced.retain(|u| Some(&u.0) == active.as_ref());
                    if !unsynced.is_empty() {
                        v.push(Viol {
                            sig: "C05/durability/append-returned-before-sync".into(),
                            what: format!("{stage}: append (sequence {}) returned while WAL bytes were not synced: {:?} (file, size, synced up to)", s, unsynced),
                        });
                    }
                    s
                })
        }
        Err(e) => {
            v.push(Viol { sig: "C05/append-error".into(), what: format!("{stage}: append failed: {e}") });
            None
        }
    }
}

/// Side branch on a copy: restart, append, restart, append, restart.
async fn side_branch(dir: &str, seg: usize, mut m: Model, rng: &mut Rng, next_id: &mut i64, label: &str) -> Vec<Viol> {
    let mut v = vec![];
    m.dir = dir.to_string();
    for round in 0..3 {
        let stage = format!("{label}/reopen#{}", round + 1);
        let Some(mut wal) = restart(dir, seg, &mut m, &stage, &mut v).await else { return v };
        if round == 2 {
            break;
        }
        let b = batch(rng, next_id);
        if let Some(s) = checked_append(&mut wal, &b, &mut m, &stage, &mut v).await {
            if m.acked.iter().any(|x| x.0 == s) {
                // the reused number shadows an older entry; keep the model usable
                m.acked.retain(|x| x.0 != s);
            }
            m.acked.push((s, b));
            m.acked.sort_by_key(|x| x.0);
        }
        drop(wal);
    }
    v
}

pub fn run(ctx: &Ctx) -> Outcome {
    let mut out = Outcome::new(
        "C05",
        "case = one (history prefix, crash, cut offset) side branch: reopen, compare with the model of completely written entries, \
         append, reopen, append, reopen; non-trivial = the cut fell strictly inside an entry (header or payload), on an empty \
         rotation-created segment, or the flushed-sequence file was torn; distinct by hash of (history, crash round, cut). \
         Quick: a battery of offsets per crash; thorough: every byte offset of the final write (exhaustive per crash point)",
    );
    out.assume("sync mode EveryWrite: when append returns the bytes are in the file (tokio's write buffer is flushed by sync_data)");
    out.assume("a crash tears only the final write (prefix of header+payload) and, independently, the 8-byte flushed_seq file");
    let rt = tokio::runtime::Builder::new_current_thread().enable_all().build().unwrap();
    let histories: u64 = if ctx.thorough { 14 * 36 } else { 240 };
    let root = util::scratch_dir("c05");
    rt.block_on(async {
        for idx in ctx.my_cases(histories) {
            let mut rng = ctx.rng("C05", idx);
            one_history(ctx, &mut out, &mut rng, idx, &root).await;
        }
    });
    util::remove_dir(&root);
    out
}

async fn one_history(ctx: &Ctx, out: &mut Outcome, rng: &mut Rng, idx: u64, root: &str) {
    let dir = format!("{}/h{}", root, idx);
    std::fs::create_dir_all(&dir).unwrap();
    let seg = *rng.pick(&[0usize, 1, 400, 400, 900, 900, 2500, 2500, 1 << 20, 1 << 20, usize::MAX]);
    let mut next_id = (idx as i64) * 1_000_000;
    let mut m = Model { acked: vec![], trunc_bound: 0, max_mark: 0, flushed: 0, maybe_tail: None, log: vec![format!("segment_limit={}", seg)], dir: dir.clone() };
    let mut viols: Vec<Viol> = vec![];
    let mut wal = match WriteAheadLog::open(cfg(&dir, seg)).await {
        Ok(w) => w,
        Err(e) => {
            out.inconclusive(&format!("cannot open WAL: {e}"));
            return;
        }
    };
    let rounds = 1 + rng.usize(3);
    for round in 0..rounds {
        // ---- a run of operations
        let nops = 1 + rng.usize(7);
        for _ in 0..nops {
            match rng.below(10) {
                0 | 1 if !m.acked.is_empty() => {
                    // flush mark as the ingester does it: truncate_before(N), then persist N
                    let hi = m.acked.last().unwrap().0;
                    let lo = m.flushed.max(1);
                    let n = rng.range(lo as i64, hi as i64) as u64;
                    m.log.push(format!("flush_mark({})", n));
                    if let Err(e) = wal.truncate_before(n).await {
                        viols.push(Viol { sig: "C05/truncate-error".into(), what: e.to_string() });
                    }
                    m.trunc_bound = m.trunc_bound.max(n);
                    m.flushed = m.flushed.max(n);
                    if persist_flushed_seq(std::path::Path::new(&dir), n).is_ok() {
                        m.max_mark = m.max_mark.max(n);
                    }
                }
                2 => {
                    m.log.push("clean_reopen".into());
                    drop(wal);
                    match restart(&dir, seg, &mut m, &format!("h{idx}/r{round}/clean"), &mut viols).await {
                        Some(w) => wal = w,
                        None => return finish(out, ctx, idx, &m, viols, &dir),
                    }
                }
                _ => {
                    let b = batch(rng, &mut next_id);
                    if let Some(s) = checked_append(&mut wal, &b, &mut m, &format!("h{idx}/r{round}"), &mut viols).await {
                        m.log.push(format!("append(rows={}) -> seq {}", b.num_rows(), s));
                        m.acked.retain(|x| x.0 != s);
                        m.acked.push((s, b));
                        m.acked.sort_by_key(|x| x.0);
                    }
                }
            }
        }
        // ---- crash: one more, unacknowledged, append, then cut it
        let before = segments(&dir);
        let b = batch(rng, &mut next_id);
        let tail_seq = match wal.append(&b).await {
            Ok(s) => s,
            Err(_) => break,
        };
        drop(wal);
        let after = segments(&dir);
        let (active, full_len) = after.last().cloned().unwrap();
        let rotated = before.last().map(|x| x.0.clone()) != Some(active.clone());
        let start_len = if rotated { 0 } else { before.last().map(|x| x.1).unwrap_or(0) };
        let entry_len = full_len - start_len;
        // optional torn flushed_seq file: the crash may also have hit a mark being persisted
        let mark_tear: Option<(u64, usize)> = if !m.acked.is_empty() && rng.chance(1, 3) {
            let hi = m.acked.last().unwrap().0;
            let n = rng.range(m.flushed.max(1) as i64, hi as i64) as u64;
            Some((n, rng.usize(9))) // 0..=8 bytes of the new value written (8 = complete)
        } else {
            None
        };
        // offsets to try (relative to the start of the final write)
        let mut cuts: Vec<u64> = if ctx.thorough {
            (0..entry_len).collect()
        } else {
            let mut c = vec![0, 1, 4, 5, 6, 13, 14, 18, 21, 22, 23, 22 + (entry_len - 22) / 2, entry_len - 2, entry_len - 1];
            c.retain(|x| *x < entry_len);
            c.sort();
            c.dedup();
            c
        };
        cuts.push(entry_len); // complete but unacknowledged
        let chosen = cuts[rng.usize(cuts.len())];
        m.log.push(format!(
            "crash#{}: unacked append seq {} ({} bytes{}), cuts tried {}, continued at cut {}{}",
            round,
            tail_seq,
            entry_len,
            if rotated { ", after rotation" } else { "" },
            cuts.len(),
            chosen,
            mark_tear.map(|(n, l)| format!(", flushed_seq torn while writing {} ({} of 8 bytes)", n, l)).unwrap_or_default()
        ));
        let mut variants: Vec<(u64, bool)> = cuts.iter().map(|c| (*c, false)).collect();
        if rotated {
            variants.push((0, true)); // crash before the new segment file was created
        }
        // side branches first (they copy the intact directory), the main line's cut last
        variants.sort_by_key(|(c, n)| (*c == chosen && !*n) as u8);
        for (cut, no_new_segment) in variants {
            let is_main = cut == chosen && !no_new_segment;
            let bdir = if is_main { dir.clone() } else { format!("{}-b", dir) };
            if !is_main {
                let _ = std::fs::remove_dir_all(&bdir);
                util::copy_dir(&dir, &bdir).unwrap();
            }
            let bactive = format!("{}/{}", bdir, std::path::Path::new(&active).file_name().unwrap().to_string_lossy());
            if no_new_segment {
                let _ = std::fs::remove_file(&bactive);
            } else {
                let f = std::fs::OpenOptions::new().write(true).open(&bactive).unwrap();
                f.set_len(start_len + cut).unwrap();
            }
            let mut bm = m.clone();
            if let Some((n, l)) = mark_tear {
                // the flush up to n had been done (truncate first, as the ingester does), the persist was torn
                let p = format!("{}/flushed_seq", bdir);
                let bytes = n.to_le_bytes();
                if l == 8 {
                    std::fs::write(&p, bytes).unwrap();
                    bm.max_mark = bm.max_mark.max(n);
                } else if l > 0 {
                    std::fs::write(&p, &bytes[..l]).unwrap();
                }
                bm.flushed = bm.flushed.max(n);
            }
            bm.maybe_tail = if cut == entry_len && !no_new_segment { Some((tail_seq, b.clone())) } else { None };
            out.eval();
            let nontrivial = (cut > 0 && cut < entry_len) || (rotated && cut == 0) || mark_tear.map(|x| x.1 > 0 && x.1 < 8).unwrap_or(false);
            if nontrivial {
                out.nontrivial(hash_str(&format!("{}|{}|{}|{}", idx, round, cut, no_new_segment)));
            }
            if cut < 22 {
                out.count("cuts.in_header", 1);
            } else if cut < entry_len {
                out.count("cuts.in_payload", 1);
            } else {
                out.count("cuts.complete_unacked", 1);
            }
            if rotated {
                out.count("cuts.after_rotation", 1);
            }
            if !is_main {
                let mut r2 = rng.fork(cut);
                let mut nid = next_id + 500_000;
                let label = format!("h{idx}/crash{round}/cut{cut}{}", if no_new_segment { "/no-new-segment" } else { "" });
                let vs = side_branch(&bdir, seg, bm, &mut r2, &mut nid, &label).await;
                report(out, ctx, idx, &m, vs);
                let _ = std::fs::remove_dir_all(&bdir);
            } else {
                m = bm;
            }
        }
        out.count("crash_points", 1);
        // main line continues from the chosen cut
        match restart(&dir, seg, &mut m, &format!("h{idx}/crash{round}/main"), &mut viols).await {
            Some(w) => wal = w,
            None => return finish(out, ctx, idx, &m, viols, &dir),
        }
        m.maybe_tail = None;
    }
    drop(wal);
    // final double reopen of the main line
    let vs = side_branch(&dir, seg, m.clone(), rng, &mut next_id, &format!("h{idx}/final")).await;
    viols.extend(vs);
    if idx % 97 == 0 {
        out.sample(json!({"history_index": idx, "ops": m.log}));
    }
    finish(out, ctx, idx, &m, viols, &dir)
}

fn report(out: &mut Outcome, ctx: &Ctx, idx: u64, m: &Model, vs: Vec<Viol>) {
    for v in vs {
        out.violation(&v.sig, &v.what, json!({"history_index": idx, "seed": ctx.seed, "history": m.log}));
    }
}

fn finish(out: &mut Outcome, ctx: &Ctx, idx: u64, m: &Model, vs: Vec<Viol>, dir: &str) {
    report(out, ctx, idx, m, vs);
    out.count("histories", 1);
    let _ = std::fs::remove_dir_all(dir);
    let _: Value = json!(null);
}
