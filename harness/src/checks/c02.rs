//! C02 — catalog mutations are atomic and never lost under concurrency.
//!
//! SIM: 2–4 ObjectStoreMetadataClients (own caches, own gated store handle)
//! each run a short list of register / re-register / delete /
//! complete_compaction operations; the scheduler interleaves them at
//! object-store-request granularity (uniform, PCT, starvation). The monitor
//! replays the successful mutations in the order of their committed
//! conditional PUTs on a small map model and compares EVERY catalog version
//! ever written with the model, and checks the chunk-map / time-index
//! agreement of every version.

use crate::outcome::Outcome;
use crate::rng::{hash_str, Rng};
use crate::sim::{self, Ctl, Event, Scheduler, Strategy};
use crate::Ctx;
use cardinalsin::ingester::ChunkMetadata;
use cardinalsin::metadata::{
    MetadataCatalog, MetadataClient, ObjectStoreMetadataClient, ObjectStoreMetadataConfig, TimeRange,
};
use serde_json::{json, Value};
use std::collections::BTreeMap;
use std::sync::Arc;

const H: i64 = 3_600_000_000_000;
pub const CATALOG: &str = "catalog.json";

#[derive(Clone, Debug)]
pub enum Op {
    Register(String, i64, i64, u64),
    Delete(String),
    Complete(Vec<String>, String),
    /// swap_compacted_chunk(sources, target path, min, max, rows): what the compactor publishes with
    Swap(Vec<String>, String, i64, i64, u64),
}

#[derive(Clone, Debug, PartialEq)]
pub struct MChunk {
    pub min: i64,
    pub max: i64,
    pub rows: u64,
    pub level: u32,
}

pub type Model = BTreeMap<String, MChunk>;

/// Apply an op to the model. Returns false when the op must be refused (no effect).
pub fn apply(model: &mut Model, op: &Op) -> bool {
    match op {
        Op::Register(p, a, b, rows) => {
            model.insert(p.clone(), MChunk { min: *a, max: *b, rows: *rows, level: 0 });
            true
        }
        Op::Delete(p) => {
            model.remove(p);
            true
        }
        Op::Complete(srcs, t) => {
            if !model.contains_key(t) {
                return false;
            }
            let lvl = srcs.iter().filter_map(|p| model.get(p).map(|c| c.level)).max().unwrap_or(0) + 1;
            for p in srcs {
                model.remove(p);
            }
            if let Some(c) = model.get_mut(t) {
                c.level = lvl;
            }
            true
        }
        Op::Swap(srcs, t, a, b, rows) => {
            // refused unless every source is still there; sources leave and the target enters together
            if srcs.iter().any(|p| !model.contains_key(p)) {
                return false;
            }
            let lvl = srcs.iter().filter_map(|p| model.get(p).map(|c| c.level)).max().unwrap_or(0) + 1;
            for p in srcs {
                model.remove(p);
            }
            model.insert(t.clone(), MChunk { min: *a, max: *b, rows: *rows, level: lvl });
            true
        }
    }
}

pub fn catalog_to_model(c: &MetadataCatalog) -> Model {
    c.chunks
        .iter()
        .map(|(p, e)| {
            (
                p.clone(),
                MChunk { min: e.base.min_timestamp, max: e.base.max_timestamp, rows: e.base.row_count, level: e.level },
            )
        })
        .collect()
}

/// chunk map and time index must agree in every version
pub fn index_disagreement(c: &MetadataCatalog) -> Option<String> {
    for (p, e) in &c.chunks {
        let mut b = (e.base.min_timestamp / H) * H;
        let end = (e.base.max_timestamp / H) * H;
        while b <= end {
            if !c.time_index.get(&b).map(|v| v.contains(p)).unwrap_or(false) {
                return Some(format!("chunk {} [{}..{}] is not indexed under bucket {}", p, e.base.min_timestamp, e.base.max_timestamp, b));
            }
            b += H;
        }
        if e.base.path != *p {
            return Some(format!("chunk key {} holds metadata for path {}", p, e.base.path));
        }
    }
    for (b, paths) in &c.time_index {
        for p in paths {
            if !c.chunks.contains_key(p) {
                return Some(format!("time index bucket {} lists {} which is not in the chunk map", b, p));
            }
        }
        if paths.is_empty() {
            return Some(format!("time index keeps an empty bucket {}", b));
        }
    }
    None
}

/// One client operation as seen at the client boundary (from the OPCALL / OPRET marks).
#[derive(Clone, Debug)]
pub struct OpRec {
    pub actor: String,
    pub desc: String,
    pub call_seq: u64,
    pub ret_seq: u64,
    pub ok: bool,
    pub err: String,
}

pub fn op_records(events: &[Event]) -> Vec<OpRec> {
    let mut open: BTreeMap<String, (String, u64)> = BTreeMap::new();
    let mut recs = vec![];
    for e in events {
        if e.op == "OPCALL" {
            open.insert(e.actor.clone(), (e.path.clone(), e.seq));
        } else if e.op == "OPRET" {
            if let Some((desc, c)) = open.remove(&e.actor) {
                recs.push(OpRec {
                    actor: e.actor.clone(),
                    desc,
                    call_seq: c,
                    ret_seq: e.seq,
                    ok: e.result == "ok",
                    err: e.result.clone(),
                });
            }
        }
    }
    // operations still open at the end of the history (task dropped): never returned
    for (actor, (desc, c)) in open {
        recs.push(OpRec { actor, desc, call_seq: c, ret_seq: u64::MAX, ok: false, err: "open".into() });
    }
    recs
}

/// Committed PUTs to `path`: (seq of the return event, actor, payload, mode, new etag).
pub fn committed_puts(events: &[Event], path: &str) -> Vec<(u64, String, bytes::Bytes, String, String)> {
    let mut calls: BTreeMap<u64, &Event> = BTreeMap::new();
    let mut v = vec![];
    for e in events {
        if e.op == "PUT" && e.path.ends_with(path) {
            if e.call {
                calls.insert(e.req, e);
            } else if e.result == "ok" || e.result.starts_with("injected-after(applied") {
                if let Some(c) = calls.get(&e.req) {
                    v.push((
                        e.seq,
                        e.actor.clone(),
                        c.payload.clone().unwrap_or_default(),
                        c.mode.clone(),
                        e.etag.clone().unwrap_or_default(),
                    ));
                }
            }
        }
    }
    v
}

fn gen_interval(rng: &mut Rng) -> (i64, i64) {
    let a = rng.range(0, 5) * H + *rng.pick(&[0i64, 1, H - 1, 1234]);
    let b = a + *rng.pick(&[0i64, 1, H - 1, H, 2 * H + 7, 30]);
    (a, b)
}

fn gen_ops(rng: &mut Rng, actor: usize, n: usize, shared_paths: &[String]) -> Vec<Op> {
    let mut ops = vec![];
    let mut mine: Vec<String> = vec![];
    for i in 0..n {
        let op = match rng.below(10) {
            0 | 1 => Op::Delete(rng.pick(shared_paths).clone()),
            2 | 3 => {
                // completion: sources from the shared pool, target = a chunk this client registered just before
                let t = format!("t/data/compacted/a{}_{}.parquet", actor, i);
                let (a, b) = gen_interval(rng);
                ops.push(Op::Register(t.clone(), a, b, rng.below(50)));
                let k = 1 + rng.usize(3);
                let mut srcs: Vec<String> = (0..k).map(|_| rng.pick(shared_paths).clone()).collect();
                srcs.sort();
                srcs.dedup();
                if rng.chance(1, 10) {
                    Op::Complete(srcs, "t/data/compacted/never-registered.parquet".into())
                } else {
                    Op::Complete(srcs, t)
                }
            }
            8 => {
                // the compactor's publication step: sources from the shared pool (all must still be there),
                // a fresh target entering in the same catalog version
                let t = format!("t/data/compacted/s{}_{}.parquet", actor, i);
                let (a, b) = gen_interval(rng);
                let k = 1 + rng.usize(3);
                let mut srcs: Vec<String> = (0..k).map(|_| rng.pick(shared_paths).clone()).collect();
                srcs.sort();
                srcs.dedup();
                Op::Swap(srcs, t, a, b, rng.below(50))
            }
            4 if !mine.is_empty() => {
                // re-register an own path with another interval
                let p = rng.pick(&mine).clone();
                let (a, b) = gen_interval(rng);
                Op::Register(p, a, b, rng.below(50))
            }
            5 | 6 => {
                // shared path: concurrent registration of the same path by several clients
                let p = rng.pick(shared_paths).clone();
                let (a, b) = gen_interval(rng);
                Op::Register(p, a, b, rng.below(50))
            }
            _ => {
                let p = format!("t/data/a{}_{}.parquet", actor, i);
                mine.push(p.clone());
                let (a, b) = gen_interval(rng);
                Op::Register(p, a, b, rng.below(50))
            }
        };
        ops.push(op);
    }
    ops
}

pub async fn do_op(c: &dyn MetadataClient, op: &Op) -> Result<(), String> {
    match op {
        Op::Register(p, a, b, rows) => c
            .register_chunk(p, &ChunkMetadata { path: p.clone(), min_timestamp: *a, max_timestamp: *b, row_count: *rows, size_bytes: 10 + *rows })
            .await
            .map_err(|e| e.to_string()),
        Op::Delete(p) => c.delete_chunk(p).await.map_err(|e| e.to_string()),
        Op::Complete(s, t) => c.complete_compaction(s, t).await.map_err(|e| e.to_string()),
        Op::Swap(s, t, a, b, rows) => c
            .swap_compacted_chunk(s, &ChunkMetadata { path: t.clone(), min_timestamp: *a, max_timestamp: *b, row_count: *rows, size_bytes: 10 + *rows })
            .await
            .map_err(|e| e.to_string()),
    }
}

pub fn run(ctx: &Ctx) -> Outcome {
    let mut out = Outcome::new(
        "C02",
        "case = one seeded schedule of 2-4 concurrent metadata clients x 2-8 mutations each, interleaved at object-store-request \
         granularity; every catalog version written is compared with the sequential model replayed in commit order; \
         non-trivial = the schedule contained at least one CAS conflict (a conditional PUT refused), distinct by scheduler decision string",
    );
    out.assume("object_store::memory::InMemory implements create-if-absent and update-if-etag-matches atomically");
    out.assume("interleavings finer than one object-store request are not explored");
    let schedules: u64 = if ctx.thorough { 14 * 150_000 } else { 60_000 };
    for idx in ctx.my_cases(schedules) {
        let mut rng = ctx.rng("C02", idx);
        one_schedule(ctx, &mut out, &mut rng, idx);
    }
    out
}

fn one_schedule(ctx: &Ctx, out: &mut Outcome, rng: &mut Rng, idx: u64) {
    let nclients = 2 + rng.usize(3);
    let shared: Vec<String> = (0..4).map(|i| format!("t/data/s{}.parquet", i)).collect();
    let populated = rng.chance(2, 3);
    let plans: Vec<Vec<Op>> = (0..nclients)
        .map(|a| {
            let n = 2 + rng.usize(if ctx.thorough { 7 } else { 5 });
            gen_ops(rng, a, n, &shared)
        })
        .collect();
    let strategy = match rng.below(10) {
        0..=4 => Strategy::Uniform,
        5..=7 => {
            let d = 1 + rng.usize(3);
            Strategy::Pct { change_points: (0..d).map(|_| rng.below(60)).collect() }
        }
        _ => Strategy::Starve { victim: format!("n{}", rng.usize(nclients)) },
    };
    let strat_name = format!("{:?}", strategy).chars().take(40).collect::<String>();
    let sched_rng = rng.fork(7);
    let plans2 = plans.clone();
    let shared2 = shared.clone();

    let (events, decisions, steps, hung, initial) = sim::run_sim(async move {
        let ctl = Ctl::new();
        // initial state, written without gating
        let mut initial = Model::new();
        if populated {
            let seed_client = ObjectStoreMetadataClient::new(ctl.store("init"), ObjectStoreMetadataConfig::default());
            for (i, p) in shared2.iter().enumerate() {
                let op = Op::Register(p.clone(), i as i64 * H, i as i64 * H + 100, 5);
                let _ = do_op(&seed_client, &op).await;
                apply(&mut initial, &op);
            }
        }
        let start = ctl.events_len();
        ctl.set_gating(true);
        let mut handles = vec![];
        for (a, plan) in plans2.into_iter().enumerate() {
            let actor = format!("n{}", a);
            let client = ObjectStoreMetadataClient::new(ctl.store(&actor), ObjectStoreMetadataConfig::default());
            let ctl2 = ctl.clone();
            let actor2 = actor.clone();
            handles.push(sim::spawn_actor(&actor, async move {
                for op in plan {
                    let desc = format!("{:?}", op);
                    ctl2.mark(&actor2, "OPCALL", &desc, "");
                    let r = do_op(&client, &op).await;
                    ctl2.mark(&actor2, "OPRET", &desc, &match r {
                        Ok(()) => "ok".to_string(),
                        Err(e) => e,
                    });
                    // what a reader on this node sees right now (through the node's own catalog cache)
                    if let Ok(v) = client.list_chunks().await {
                        let mut m: Vec<(String, i64, i64, u64)> = v.into_iter().map(|e| (e.chunk_path, e.min_timestamp, e.max_timestamp, e.row_count)).collect();
                        m.sort();
                        ctl2.mark(&actor2, "READ", &format!("{:?}", m), "");
                    }
                }
            }));
        }
        let mut sched = Scheduler::new(sched_rng, strategy);
        let mut hung = false;
        loop {
            if handles.iter().all(|h| h.is_finished()) {
                break;
            }
            sched.step(&ctl).await;
            if sched.steps > 20_000 {
                hung = true;
                break;
            }
        }
        ctl.set_gating(false);
        // quiescent read through a fresh client
        let fresh = ObjectStoreMetadataClient::new(ctl.store("fresh"), ObjectStoreMetadataConfig::default());
        let listed = fresh.list_chunks().await.map(|v| {
            let mut m: Vec<(String, i64, i64, u64)> = v.into_iter().map(|e| (e.chunk_path, e.min_timestamp, e.max_timestamp, e.row_count)).collect();
            m.sort();
            m
        });
        let ranged = fresh.get_chunks(TimeRange::new(i64::MIN / 2, i64::MAX / 2)).await.map(|v| {
            let mut m: Vec<(String, i64, i64, u64)> = v.into_iter().map(|e| (e.chunk_path, e.min_timestamp, e.max_timestamp, e.row_count)).collect();
            m.sort();
            m
        });
        ctl.mark("fresh", "QUIESCENT", &format!("{:?}", listed.map_err(|e| e.to_string())), &format!("{:?}", ranged.map_err(|e| e.to_string())));
        (ctl.events_from(start), sched.decisions.clone(), sched.steps, hung, initial)
    });

    out.eval();
    if hung {
        out.inconclusive(&format!("schedule {} did not finish within 20000 scheduler steps", idx));
        return;
    }
    let witness = |events: &[Event]| -> Value {
        json!({"schedule_index": idx, "seed": ctx.seed, "strategy": strat_name, "decisions": decisions,
            "plans": plans.iter().map(|p| p.iter().map(|o| format!("{:?}", o)).collect::<Vec<_>>()).collect::<Vec<_>>(),
            "events": events.iter().filter(|e| e.op != "HOOK").map(|e| e.brief()).collect::<Vec<_>>()})
    };
    let conflicts = events.iter().filter(|e| !e.call && e.op == "PUT" && (e.result == "precondition" || e.result == "exists")).count() as u64;
    out.count("object_store_requests", events.iter().filter(|e| e.call && (e.op == "GET" || e.op == "PUT")).count() as u64);
    out.count("cas_conflicts", conflicts);
    out.count("scheduler_steps", steps);
    if conflicts > 0 {
        out.nontrivial(hash_str(&decisions));
    }
    out.count("distinct_schedules_hashed", 1);

    // ---- oracle
    let ops = op_records(&events);
    let puts = committed_puts(&events, CATALOG);
    out.count("catalog_versions_checked", puts.len() as u64);
    let exhausted = ops.iter().filter(|o| o.err.contains("Too many retries") || o.err.contains("TooManyRetries") || o.err.to_lowercase().contains("retries")).count() as u64;
    out.count("retry_exhaustions", exhausted);

    // attribute every committed PUT to exactly one client operation
    let mut model = initial.clone();
    let mut used: Vec<usize> = vec![];
    for (seq, actor, payload, mode, _etag) in &puts {
        if mode == "overwrite" {
            // not a violation by itself: a lost update would show in the model comparison below
            out.count("unconditional_catalog_puts", 1);
        }
        let Some((oi, op)) = ops.iter().enumerate().find(|(_, o)| o.actor == *actor && o.call_seq < *seq && *seq < o.ret_seq) else {
            out.violation("C02/put-outside-any-operation", "a committed catalog PUT lies outside every client operation", witness(&events));
            continue;
        };
        if used.contains(&oi) {
            out.violation("C02/operation-committed-twice", &format!("operation {} committed more than one catalog version", op.desc), witness(&events));
        }
        used.push(oi);
        if !op.ok {
            out.violation(
                "C02/failed-operation-has-effect",
                &format!("operation {} reported failure ({}) but committed a catalog version", op.desc, op.err),
                witness(&events),
            );
        }
        // replay on the model
        let parsed_op = parse_op(&op.desc);
        let accepted = apply(&mut model, &parsed_op);
        if !accepted {
            out.violation(
                "C02/refusable-operation-committed",
                &format!("operation {} must be refused (unknown target or missing source) but committed", op.desc),
                witness(&events),
            );
        }
        let cat: MetadataCatalog = match serde_json::from_slice(payload) {
            Ok(c) => c,
            Err(e) => {
                out.violation("C02/unparsable-version", &format!("catalog version does not parse: {e}"), witness(&events));
                continue;
            }
        };
        let got = catalog_to_model(&cat);
        if got != model {
            let missing: Vec<&String> = model.keys().filter(|k| !got.contains_key(*k)).collect();
            let extra: Vec<&String> = got.keys().filter(|k| !model.contains_key(*k)).collect();
            let sig = if !missing.is_empty() {
                "C02/lost-update"
            } else if !extra.is_empty() {
                "C02/resurrected-chunk"
            } else {
                "C02/wrong-chunk-metadata"
            };
            out.violation(
                sig,
                &format!("catalog version written by {} for {} != sequential model (missing {:?}, extra {:?})", actor, op.desc, missing, extra),
                witness(&events),
            );
            // resynchronise so that one defect is reported once
            model = got;
        }
        if let Some(d) = index_disagreement(&cat) {
            out.violation("C02/index-disagrees-with-chunk-map", &d, witness(&events));
        }
    }
    // ---- readers only ever see stored versions: every listing a node served (through its own cache) must be
    //      the listing of the initial catalog or of some version that was actually stored
    {
        let listing = |m: &Model| -> String {
            let mut v: Vec<(String, i64, i64, u64)> = m.iter().map(|(p, c)| (p.clone(), c.min, c.max, c.rows)).collect();
            v.sort();
            format!("{:?}", v)
        };
        let mut stored: std::collections::BTreeSet<String> = std::collections::BTreeSet::new();
        stored.insert(listing(&initial));
        for (_seq, _actor, payload, _mode, _etag) in &puts {
            if let Ok(cat) = serde_json::from_slice::<MetadataCatalog>(payload) {
                stored.insert(listing(&catalog_to_model(&cat)));
            }
        }
        let mut reads = 0u64;
        for e in events.iter().filter(|e| e.op == "READ") {
            reads += 1;
            if !stored.contains(&e.path) {
                out.violation(
                    "C02/reader-saw-a-catalog-that-was-never-stored",
                    &format!("{} served the listing {} which is the listing of no catalog version ever stored", e.actor, e.path.chars().take(300).collect::<String>()),
                    witness(&events),
                );
                break;
            }
        }
        out.count("node_local_reads_checked", reads);
    }
    // successful operations must have committed exactly once
    for (oi, op) in ops.iter().enumerate() {
        if op.ok && !used.contains(&oi) {
            out.violation(
                "C02/success-without-commit",
                &format!("operation {} reported success but no catalog version was committed by it", op.desc),
                witness(&events),
            );
        }
        if !op.ok {
            let refusable = (matches!(parse_op(&op.desc), Op::Complete(..)) && op.err.contains("not found in catalog"))
                || (matches!(parse_op(&op.desc), Op::Swap(..)) && op.err.contains("no longer in catalog"));
            let exhausted = op.err.to_lowercase().contains("retries");
            if !refusable && !exhausted {
                out.violation(
                    "C02/unexpected-failure",
                    &format!("operation {} failed without faults: {}", op.desc, op.err),
                    witness(&events),
                );
            }
        }
    }
    // quiescent state
    if let Some(q) = events.iter().find(|e| e.op == "QUIESCENT") {
        let mut exp: Vec<(String, i64, i64, u64)> = model.iter().map(|(p, c)| (p.clone(), c.min, c.max, c.rows)).collect();
        exp.sort();
        let want = format!("{:?}", Ok::<_, String>(exp));
        if q.path != want {
            out.violation("C02/quiescent-list-mismatch", "a fresh client's list_chunks differs from the model at quiescence", witness(&events));
        }
        if q.result != want {
            out.violation("C02/quiescent-range-mismatch", "a fresh client's get_chunks(everything) differs from the model at quiescence", witness(&events));
        }
    }
    if idx < 2 {
        out.sample(json!({"schedule_index": idx, "strategy": strat_name, "clients": nclients, "decisions": decisions,
            "plans": plans.iter().map(|p| p.iter().map(|o| format!("{:?}", o)).collect::<Vec<_>>()).collect::<Vec<_>>(),
            "cas_conflicts": conflicts, "catalog_versions": puts.len()}));
    }
}

/// The op description is the Debug rendering; parse it back (harness-internal round trip).
fn parse_op(desc: &str) -> Op {
    // Register("p", a, b, rows) | Delete("p") | Complete(["a", "b"], "t")
    let strs: Vec<String> = desc.split('"').enumerate().filter(|(i, _)| i % 2 == 1).map(|(_, s)| s.to_string()).collect();
    if desc.starts_with("Register") {
        let tail = desc.rsplit('"').next().unwrap_or("");
        let nums: Vec<i64> = tail.split(|c: char| !(c.is_ascii_digit() || c == '-')).filter(|s| !s.is_empty()).filter_map(|s| s.parse().ok()).collect();
        Op::Register(strs[0].clone(), nums[0], nums[1], nums[2] as u64)
    } else if desc.starts_with("Delete") {
        Op::Delete(strs[0].clone())
    } else if desc.starts_with("Swap") {
        let tail = desc.rsplit('"').next().unwrap_or("");
        let nums: Vec<i64> = tail.split(|c: char| !(c.is_ascii_digit() || c == '-')).filter(|s| !s.is_empty()).filter_map(|s| s.parse().ok()).collect();
        let n = strs.len();
        Op::Swap(strs[..n - 1].to_vec(), strs[n - 1].clone(), nums[0], nums[1], nums[2] as u64)
    } else {
        let n = strs.len();
        Op::Complete(strs[..n - 1].to_vec(), strs[n - 1].clone())
    }
}
