//! C08 — compaction leases are exclusive while live and reclaimable once expired.
//!
//! SIM (object-store backend): 2–4 nodes issue acquire / renew / complete /
//! fail / scavenge on a small chunk universe, interleaved at request
//! granularity, with the (frozen, shared) wall clock advanced by the scheduler
//! anywhere — also between a GET and its PUT. Monitors, all stated at the
//! level of the property (no TTL constant is assumed):
//!   P1 every lease-file version: live Active leases are pairwise disjoint
//!   P2 version to version: a live Active lease is never removed, shortened or taken over
//!   P3 an acquire refused as "already leased" really faced a live Active lease on the table it read
//!   P4 a renew that reports success found its lease in the table; a displaced holder's renew fails
//!   P5 a successful acquire is in the version it committed, live, with exactly the requested chunks
//!   P6 failed operations commit nothing
//! STRESS (in-memory backend): concurrent acquires on real threads, then
//! clock jumps and the sequential post-conditions.

use crate::checks::c02::{committed_puts, op_records};
use crate::clock;
use crate::outcome::Outcome;
use crate::rng::{hash_str, Rng};
use crate::sim::{self, Ctl, Event, Scheduler, Strategy};
use crate::Ctx;
use cardinalsin::metadata::{
    CompactionLeases, LeaseStatus, LocalMetadataClient, MetadataClient, ObjectStoreMetadataClient, ObjectStoreMetadataConfig,
};
use parking_lot::Mutex;
use serde_json::json;
use std::collections::BTreeMap;
use std::sync::Arc;

const S: i64 = 1_000_000_000;

fn ns(t: &chrono::DateTime<chrono::Utc>) -> i64 {
    t.timestamp_nanos_opt().unwrap_or(0)
}

pub fn run(ctx: &Ctx) -> Outcome {
    let mut out = Outcome::new(
        "C08",
        "SIM case = one seeded schedule of 2-4 nodes x 3-8 lease operations over 4-6 chunks with clock jumps (+1 s .. +400 s) placed \
         anywhere, every version of the lease file checked; non-trivial = the schedule contained an expiry placement (a clock jump that \
         made a live lease expire) or a refused / conflicting operation, distinct by decision string. STRESS case = one round of concurrent \
         acquires on the in-memory backend plus post-expiry checks",
    );
    out.assume("all nodes read the same clock (the property's own assumption); the clock is the harness-controlled CLOCK_REALTIME");
    out.assume("object_store::memory::InMemory implements conditional PUT atomically");
    let schedules: u64 = if ctx.thorough { 14 * 60_000 } else { 24_000 };
    for idx in ctx.my_cases(schedules) {
        let mut rng = ctx.rng("C08", idx);
        sim_case(ctx, &mut out, &mut rng, idx);
    }
    clock::unfreeze_wall();
    stress(ctx, &mut out);
    out
}

#[derive(Clone, Debug)]
struct LeaseView {
    holder: String,
    chunks: Vec<String>,
    expires: i64,
    active: bool,
}

fn view(l: &CompactionLeases) -> BTreeMap<String, LeaseView> {
    l.leases
        .iter()
        .map(|(id, x)| {
            let mut c = x.chunks.clone();
            c.sort();
            (id.clone(), LeaseView { holder: x.holder_id.clone(), chunks: c, expires: ns(&x.expires_at), active: x.status == LeaseStatus::Active })
        })
        .collect()
}

fn sim_case(ctx: &Ctx, out: &mut Outcome, rng: &mut Rng, idx: u64) {
    let nnodes = 2 + rng.usize(3);
    let nchunks = 4 + rng.usize(3);
    let nops = 3 + rng.usize(6);
    let strategy = match rng.below(10) {
        0..=5 => Strategy::Uniform,
        6..=8 => Strategy::Pct { change_points: (0..2).map(|_| rng.below(50)).collect() },
        _ => Strategy::Starve { victim: format!("n{}", rng.usize(nnodes)) },
    };
    let sched_rng = rng.fork(11);
    let mut clock_rng = rng.fork(12);
    let node_seeds: Vec<Rng> = (0..nnodes).map(|i| rng.fork(100 + i as u64)).collect();
    let pre_existing_file = rng.chance(1, 2);
    let jump_permille = *rng.pick(&[20u64, 60, 150]);
    let contention_burst = rng.chance(1, 6);
    let contention_from = rng.below(6);

    let (events, decisions, hung, jumps) = sim::run_sim(async move {
        clock::freeze_wall(clock::SIM_EPOCH_NS);
        let ctl = Ctl::new();
        if pre_existing_file {
            // make the lease file exist (otherwise the first writes race on creation)
            let c = ObjectStoreMetadataClient::new(ctl.store("init"), ObjectStoreMetadataConfig::default());
            if let Ok(l) = c.acquire_lease("init", &["zz".to_string()], 0).await {
                let _ = c.complete_lease(&l.lease_id).await;
            }
        }
        let start = ctl.events_len();
        // a sixth of the schedules: a burst of lost compare-and-swap races on the lease file (5 = a client's whole
        // retry budget: "conflict-retry exhaustion" in the property's quantifier)
        if contention_burst {
            ctl.set_contention(Some(sim::Contention { path_contains: "compaction-leases".into(), from: contention_from, count: 5 }));
        }
        ctl.set_gating(true);
        let mut handles = vec![];
        for (a, mut nrng) in node_seeds.into_iter().enumerate() {
            let actor = format!("n{}", a);
            let client = ObjectStoreMetadataClient::new(ctl.store(&actor), ObjectStoreMetadataConfig::default());
            let ctl2 = ctl.clone();
            let actor2 = actor.clone();
            handles.push(sim::spawn_actor(&actor, async move {
                let mut mine: Vec<String> = vec![]; // lease ids this node believes it holds
                for _ in 0..nops {
                    let kind = nrng.below(10);
                    if kind < 4 || mine.is_empty() && kind < 8 {
                        let k = 1 + nrng.usize(3);
                        let mut chunks: Vec<String> = (0..k).map(|_| format!("c{}", nrng.usize(nchunks))).collect();
                        chunks.sort();
                        chunks.dedup();
                        let desc = format!("acquire|{}", chunks.join(","));
                        ctl2.mark(&actor2, "OPCALL", &desc, "");
                        let r = client.acquire_lease(&actor2, &chunks, nrng.below(3) as u32).await;
                        match r {
                            Ok(l) => {
                                ctl2.mark(&actor2, "OPRET", &desc, &format!("ok|{}", l.lease_id));
                                mine.push(l.lease_id);
                            }
                            Err(e) => ctl2.mark(&actor2, "OPRET", &desc, &format!("err|{:?}", e)),
                        }
                    } else if kind < 8 && !mine.is_empty() {
                        let id = mine[nrng.usize(mine.len())].clone();
                        let which = if kind < 6 { "renew" } else if kind == 6 { "complete" } else { "fail" };
                        let desc = format!("{}|{}", which, id);
                        ctl2.mark(&actor2, "OPCALL", &desc, "");
                        let r = match which {
                            "renew" => client.renew_lease(&id).await,
                            "complete" => client.complete_lease(&id).await,
                            _ => client.fail_lease(&id).await,
                        };
                        if which != "renew" || r.is_err() {
                            mine.retain(|x| *x != id);
                        }
                        ctl2.mark(&actor2, "OPRET", &desc, &match r {
                            Ok(()) => "ok|".to_string(),
                            Err(e) => format!("err|{:?}", e),
                        });
                    } else {
                        ctl2.mark(&actor2, "OPCALL", "scavenge|", "");
                        let r = client.scavenge_leases().await;
                        ctl2.mark(&actor2, "OPRET", "scavenge|", &match r {
                            Ok(n) => format!("ok|{}", n),
                            Err(e) => format!("err|{:?}", e),
                        });
                    }
                }
            }));
        }
        let mut sched = Scheduler::new(sched_rng, strategy);
        let mut hung = false;
        let mut jumps = 0u64;
        while !handles.iter().all(|h| h.is_finished()) {
            if clock_rng.below(1000) < jump_permille {
                sim::barrier().await;
                let d = *clock_rng.pick(&[1i64, 30, 120, 180, 299, 300, 301, 400]);
                clock::advance_wall(d * S);
                ctl.mark("clock", "CLOCK", &format!("+{}s", d), "");
                sched.decisions.push_str(&format!("T{} ", d));
                jumps += 1;
            }
            sched.step(&ctl).await;
            if sched.steps > 30_000 {
                hung = true;
                break;
            }
        }
        ctl.set_gating(false);
        (ctl.events_from(start), sched.decisions.clone(), hung, jumps)
    });
    out.eval();
    if hung {
        out.inconclusive(&format!("schedule {} did not finish", idx));
        return;
    }
    out.count("sim.clock_jumps", jumps);
    let witness = |events: &[Event]| {
        json!({"schedule_index": idx, "seed": ctx.seed, "decisions": decisions, "nodes": nnodes, "chunks": nchunks,
            "events": events.iter().map(|e| e.brief()).collect::<Vec<_>>()})
    };
    let ops = op_records(&events);
    // (the contender's same-content rewrites change nothing in the table: not versions of interest)
    let puts: Vec<_> = committed_puts(&events, "compaction-leases.json").into_iter().filter(|p| p.1 != "contender").collect();
    out.count("lost_cas_races_injected", events.iter().filter(|e| e.actor == "contender" && !e.call).count() as u64);
    out.count("sim.lease_file_versions_checked", puts.len() as u64);
    out.count("sim.operations", ops.len() as u64);

    // wall clock at each event seq, and table versions by commit seq
    let wall_at = |seq: u64| events.iter().find(|e| e.seq == seq).map(|e| e.wall_ns).unwrap_or(0);
    let mut versions: Vec<(u64, i64, BTreeMap<String, LeaseView>, String)> = vec![]; // (seq, wall, table, actor)
    for (seq, actor, payload, _mode, _etag) in &puts {
        match serde_json::from_slice::<CompactionLeases>(payload) {
            Ok(l) => versions.push((*seq, wall_at(*seq), view(&l), actor.clone())),
            Err(e) => out.violation("C08/unparsable-version", &e.to_string(), witness(&events)),
        }
    }
    let mut expiry_placements = 0u64;
    let mut refused = 0u64;
    let mut prev: BTreeMap<String, LeaseView> = BTreeMap::new();
    // initial table = whatever the file held before the gated phase (pre_existing: one terminal lease) — irrelevant to P1/P2
    for (i, (seq, wall, table, actor)) in versions.iter().enumerate() {
        // P1: pairwise disjointness of live Active leases at commit time
        let live: Vec<(&String, &LeaseView)> = table.iter().filter(|(_, l)| l.active && l.expires > *wall).collect();
        for a in 0..live.len() {
            for b in a + 1..live.len() {
                if let Some(c) = live[a].1.chunks.iter().find(|c| live[b].1.chunks.contains(c)) {
                    out.violation(
                        "C08/two-live-leases-share-a-chunk",
                        &format!("lease-file version committed by {} at seq {}: live leases {} ({}) and {} ({}) both hold {}", actor, seq, live[a].0, live[a].1.holder, live[b].0, live[b].1.holder, c),
                        witness(&events),
                    );
                }
            }
        }
        // the operation that committed this version
        let op = ops.iter().find(|o| o.actor == *actor && o.call_seq < *seq && *seq < o.ret_seq);
        // P2: live Active leases of the previous version survive unshortened
        if i > 0 {
            for (id, l) in prev.iter().filter(|(_, l)| l.active && l.expires > *wall) {
                let terminated_by_op = op.map(|o| (o.desc.starts_with("complete|") || o.desc.starts_with("fail|")) && o.desc.ends_with(id.as_str())).unwrap_or(false);
                match table.get(id) {
                    None => out.violation(
                        "C08/live-lease-removed",
                        &format!("live lease {} of {} (expires {} > now {}) vanished in the version committed by {} ({})", id, l.holder, l.expires, wall, actor, op.map(|o| o.desc.clone()).unwrap_or_default()),
                        witness(&events),
                    ),
                    Some(n) => {
                        if !n.active && !terminated_by_op {
                            out.violation("C08/live-lease-terminated-by-other-operation", id, witness(&events));
                        }
                        if n.active && (n.expires < l.expires || n.holder != l.holder || n.chunks != l.chunks) {
                            out.violation("C08/live-lease-altered", &format!("lease {} changed from {:?} to {:?}", id, l, n), witness(&events));
                        }
                    }
                }
            }
        }
        // count expiry placements: a lease that was live at the previous commit and is expired now
        if i > 0 {
            let pw = versions[i - 1].1;
            expiry_placements += prev.values().filter(|l| l.active && l.expires > pw && l.expires <= *wall).count() as u64;
        }
        // P5 / P4 on the committing operation
        if let Some(o) = op {
            if o.desc.starts_with("acquire|") && o.err.starts_with("ok|") {
                let id = &o.err[3..];
                let mut want: Vec<String> = o.desc[8..].split(',').map(|s| s.to_string()).collect();
                want.sort();
                match table.get(id) {
                    // (it may already be expired on arrival if the clock jumped between the operation's now and its PUT)
                    Some(l) if l.active && l.chunks == want && l.holder == o.actor => {}
                    other => out.violation(
                        "C08/acquired-lease-not-in-committed-version",
                        &format!("{} {} returned lease {} but the committed version holds {:?}", o.actor, o.desc, id, other),
                        witness(&events),
                    ),
                }
            }
            if o.desc.starts_with("renew|") && o.err.starts_with("ok|") {
                let id = &o.desc[6..];
                let before = if i > 0 { prev.get(id) } else { None };
                if i > 0 && before.is_none() {
                    out.violation(
                        "C08/renew-resurrected-removed-lease",
                        &format!("{} renewed lease {} successfully although the table no longer held it", o.actor, id),
                        witness(&events),
                    );
                }
                match table.get(id) {
                    Some(l) if l.active && before.map(|b| l.expires >= b.expires).unwrap_or(true) => {}
                    other => out.violation("C08/renewed-lease-not-extended", &format!("{:?}", other), witness(&events)),
                }
            }
            if !o.ok && !o.err.starts_with("ok|") {
                out.violation(
                    "C08/failed-operation-has-effect",
                    &format!("{} {} reported {} but committed a lease-file version", o.actor, o.desc, o.err),
                    witness(&events),
                );
            }
        } else {
            out.violation("C08/put-outside-any-operation", "", witness(&events));
        }
        prev = table.clone();
    }
    // P3 / P4 on operations that were refused: look at the table they last read
    for o in &ops {
        let okish = o.err.starts_with("ok|");
        if okish {
            continue;
        }
        refused += 1;
        // last GET of the lease file by this actor inside the operation
        let last_get = events
            .iter()
            .filter(|e| !e.call && e.op == "GET" && e.actor == o.actor && e.path.ends_with("compaction-leases.json") && e.seq > o.call_seq && e.seq < o.ret_seq)
            .last();
        let Some(g) = last_get else { continue };
        let table = versions.iter().filter(|v| v.0 < g.seq).last().map(|v| v.2.clone());
        let now = g.wall_ns;
        if o.desc.starts_with("acquire|") && o.err.contains("ChunksAlreadyLeased") {
            let want: Vec<&str> = o.desc[8..].split(',').collect();
            let blocked = table
                .as_ref()
                .map(|t| t.values().any(|l| l.active && l.expires > now && l.chunks.iter().any(|c| want.contains(&c.as_str()))))
                .unwrap_or(false);
            if !blocked && table.is_some() {
                out.violation(
                    "C08/acquire-refused-without-live-lease",
                    &format!("{} {} was refused at now={} although no live Active lease on the table it read holds any of the chunks (expired leases must be reclaimable)", o.actor, o.desc, now),
                    witness(&events),
                );
            }
        } else if o.desc.starts_with("acquire|") && !o.err.contains("TooManyRetries") {
            out.violation("C08/acquire-unexpected-error", &o.err, witness(&events));
        }
        if o.desc.starts_with("renew|") && !o.err.contains("TooManyRetries") {
            let id = &o.desc[6..];
            if let Some(t) = &table {
                if t.get(id).map(|l| l.active).unwrap_or(false) {
                    out.violation(
                        "C08/renew-refused-although-lease-active",
                        &format!("{} {} failed with {} although the table it read holds the lease as Active", o.actor, o.desc, o.err),
                        witness(&events),
                    );
                }
            }
        }
    }
    out.count("sim.expiry_placements", expiry_placements);
    out.count("sim.refused_operations", refused);
    if expiry_placements > 0 || refused > 0 {
        out.nontrivial(hash_str(&decisions));
    }
    if idx < 2 {
        out.sample(json!({"lane": "sim", "schedule_index": idx, "decisions": decisions,
            "operations": ops.iter().map(|o| format!("{} {} -> {}", o.actor, o.desc, o.err)).collect::<Vec<_>>()}));
    }
}

fn stress(ctx: &Ctx, out: &mut Outcome) {
    let rounds: u64 = if ctx.thorough { 14 * 4_000 } else { 1_600 };
    let my = ctx.my_cases(rounds);
    if my.is_empty() {
        return;
    }
    let rt = tokio::runtime::Builder::new_multi_thread().worker_threads(8).enable_all().build().unwrap();
    rt.block_on(async {
        for idx in my {
            let mut rng = ctx.rng("C08-stress", idx);
            let client = Arc::new(LocalMetadataClient::new());
            let k = 2 + rng.usize(6);
            let results: Arc<Mutex<Vec<(usize, Vec<String>, Option<String>)>>> = Arc::new(Mutex::new(vec![]));
            let mut hs = vec![];
            for t in 0..k {
                let c = client.clone();
                let res = results.clone();
                let mut chunks: Vec<String> = (0..1 + rng.usize(3)).map(|_| format!("c{}", rng.usize(5))).collect();
                chunks.sort();
                chunks.dedup();
                // (the level argument says which level is being compacted; a chunk under lease is under lease
                //  whatever level the other request names)
                let level = rng.below(3) as u32;
                hs.push(tokio::spawn(async move {
                    let r = c.acquire_lease(&format!("n{t}"), &chunks, level).await;
                    res.lock().push((t, chunks, r.ok().map(|l| l.lease_id)));
                }));
            }
            for h in hs {
                let _ = h.await;
            }
            out.eval();
            out.count("stress.rounds", 1);
            let res = results.lock().clone();
            let winners: Vec<&(usize, Vec<String>, Option<String>)> = res.iter().filter(|r| r.2.is_some()).collect();
            for a in 0..winners.len() {
                for b in a + 1..winners.len() {
                    if winners[a].1.iter().any(|c| winners[b].1.contains(c)) {
                        out.violation(
                            "C08/local/two-live-leases-share-a-chunk",
                            &format!("concurrent acquires {:?} and {:?} both succeeded (in-memory backend)", winners[a].1, winners[b].1),
                            json!({"lane": "stress", "round": idx, "seed": ctx.seed, "results": format!("{:?}", res)}),
                        );
                    }
                }
            }
            if winners.len() < res.len() {
                out.nontrivial(hash_str(&format!("stress-{}", idx)));
            }
            // a loser's chunks must really be blocked by a winner
            for l in res.iter().filter(|r| r.2.is_none()) {
                if !winners.iter().any(|w| w.1.iter().any(|c| l.1.contains(c))) {
                    out.violation("C08/local/acquire-refused-without-live-lease", &format!("{:?}", l), json!({"round": idx, "results": format!("{:?}", res)}));
                }
            }
            // renew the first winner in time, let the others expire, then reclaim
            if let Some(w0) = winners.first() {
                clock::advance_wall(200 * S);
                let id0 = w0.2.clone().unwrap();
                if client.renew_lease(&id0).await.is_err() {
                    out.violation("C08/local/renew-in-time-refused", "", json!({"round": idx}));
                }
                clock::advance_wall(150 * S); // 350 s after acquisition: un-renewed leases are expired, w0 is not
                let r = client.acquire_lease("late", &w0.1, rng.below(3) as u32).await;
                if r.is_ok() {
                    out.violation(
                        "C08/local/renewed-lease-displaced",
                        "a lease renewed in time was handed to another node",
                        json!({"lane": "stress", "round": idx, "seed": ctx.seed}),
                    );
                }
                for w in winners.iter().skip(1) {
                    // chunks not shared with w0 are reclaimable now
                    let free: Vec<String> = w.1.iter().filter(|c| !w0.1.contains(c)).cloned().collect();
                    if free.is_empty() {
                        continue;
                    }
                    match client.acquire_lease("late", &free, rng.below(3) as u32).await {
                        Ok(nl) => {
                            // the displaced holder must be told at its next renew
                            if client.renew_lease(w.2.as_ref().unwrap()).await.is_ok() {
                                out.violation(
                                    "C08/local/displaced-holder-renew-succeeded",
                                    "a holder whose lease was reclaimed could still renew it",
                                    json!({"lane": "stress", "round": idx, "seed": ctx.seed}),
                                );
                            }
                            let _ = client.complete_lease(&nl.lease_id).await;
                        }
                        Err(e) => out.violation(
                            "C08/local/expired-lease-not-reclaimable",
                            &format!("acquire of {:?} 350 s after an un-renewed lease failed: {}", free, e),
                            json!({"lane": "stress", "round": idx, "seed": ctx.seed}),
                        ),
                    }
                }
            }
        }
    });
}
