//! C15 — dual-write routes each row to exactly one new shard; split-time reads stay exact.
//!
//! Routing: the shard id of a batch is learned at the boundary (the recording
//! catalog decorator sees the ingester's `get_split_state(<id>)`), a split of
//! that shard is put into DualWrite / Backfill, the batch is written and the
//! chunks newly registered under each new shard's path are compared with the
//! batch (ts < sp under A, ts >= sp under B, rows at the split point in B).
//! Reads: `QueryNode::query` during the split vs the same SQL over the ingested
//! rows (no split). A deviation is attributed to the recorded duplication
//! finding only if the answer is EXACTLY what the same SQL yields over the
//! physical table (ingested rows + double-written copies); anything else is new.
//! Input level: the (feature-gated re-export of the) private de-duplication
//! routine on result + copies.

use crate::checks::c01::storage_config;
use crate::outcome::Outcome;
use crate::rng::{hash_str, Rng};
use crate::rows::{self, RowSpec, SchemaKind};
use crate::sim::Ctl;
use crate::simmeta::RecMeta;
use crate::Ctx;
use arrow_array::RecordBatch;
use cardinalsin::ingester::Ingester;
use cardinalsin::metadata::{LocalMetadataClient, MetadataClient};
use cardinalsin::query::QueryNode;
use cardinalsin::schema::MetricSchema;
use cardinalsin::sharding::SplitPhase;
use datafusion::prelude::SessionContext;
use object_store::memory::InMemory;
use serde_json::{json, Value};
use std::collections::BTreeSet;
use std::sync::Arc;

const FIVE_MIN: i64 = 300_000_000_000;

async fn sql_over(batches: Vec<RecordBatch>, sql: &str) -> Result<Vec<String>, String> {
    let ctx = SessionContext::new();
    if batches.is_empty() {
        return Err("no rows".into());
    }
    let schema = batches[0].schema();
    let mt = datafusion::datasource::MemTable::try_new(schema, vec![batches]).map_err(|e| e.to_string())?;
    ctx.register_table("metrics", Arc::new(mt)).map_err(|e| e.to_string())?;
    let out = ctx.sql(sql).await.map_err(|e| e.to_string())?.collect().await.map_err(|e| e.to_string())?;
    Ok(rows::canonical_rows(&out))
}

pub fn run(ctx: &Ctx) -> Outcome {
    let mut out = Outcome::new(
        "C15",
        "case = one split scenario: 1-3 batches (rows below / at / above the split point, several series per (timestamp, metric), exact duplicates) written \
         in DualWrite or Backfill, routing judged per write, then 4-6 queries judged against the no-split reference; plus input-level applications of the \
         de-duplication routine; non-trivial = the batch had rows on both sides of the split point (routing) / the query selected >= 1 row (reads), distinct by \
         hash of (scenario, batch or query)",
    );
    out.assume("the shard id is the one the ingester itself asks the catalog about; DataFusion 44 is the SQL reference; Int64 timestamps (the dual-write path refuses other types)");
    let scenarios: u64 = if ctx.thorough { 14 * 2500 } else { 1600 };
    let rt = tokio::runtime::Builder::new_current_thread().enable_all().build().unwrap();
    rt.block_on(async {
        for idx in ctx.my_cases(scenarios) {
            let mut rng = ctx.rng("C15", idx);
            scenario(ctx, &mut out, &mut rng, idx).await;
        }
        let n: u64 = if ctx.thorough { 14 * 20_000 } else { 8_000 };
        for idx in ctx.my_cases(n) {
            let mut rng = ctx.rng("C15-dedup", idx);
            dedup_case(ctx, &mut out, &mut rng, idx);
        }
    });
    out
}

fn gen_batch(rng: &mut Rng, sp: i64, next_id: &mut i64, metric: &str) -> Vec<RowSpec> {
    let k = 2 + rng.usize(6);
    let mut rows: Vec<RowSpec> = vec![];
    // first row fixes the shard id: always the same metric and 5-minute bucket
    for i in 0..k {
        *next_id += 1;
        let ts = if i == 0 {
            sp - 7
        } else {
            match rng.below(7) {
                0 => sp,
                1 => sp - 1,
                2 => sp + 1,
                3 => sp - rng.range(2, 1000),
                4 => sp + rng.range(2, 1000),
                5 if !rows.is_empty() => rows[rng.usize(rows.len())].ts, // same timestamp as another row: another series
                _ => sp + rng.range(-50, 50),
            }
        };
        rows.push(RowSpec { id: *next_id, ts, metric: metric.to_string(), host: Some(format!("h{}", rng.below(3))), value: *next_id as f64 });
    }
    rows
}

async fn scenario(ctx: &Ctx, out: &mut Outcome, rng: &mut Rng, idx: u64) {
    let store = Arc::new(InMemory::new());
    // either catalog backend
    let object_store_backend = rng.chance(1, 2);
    let local: Arc<dyn MetadataClient> = if object_store_backend {
        Arc::new(cardinalsin::metadata::ObjectStoreMetadataClient::new(store.clone(), cardinalsin::metadata::ObjectStoreMetadataConfig::default()))
    } else {
        Arc::new(LocalMetadataClient::new())
    };
    if object_store_backend {
        out.count("scenarios_on_the_object_store_catalog", 1);
    }
    let ctl = Ctl::new(); // only used as the event log of the recording decorator
    let rec: Arc<dyn MetadataClient> = RecMeta::new(local.clone(), ctl.clone(), "ing");
    let ing = Ingester::new(crate::checks::c03::no_wal_ingester_config(), store.clone(), rec, storage_config(), MetricSchema::default_metrics());
    let sp = FIVE_MIN * (5_000_000 + rng.range(0, 1000)) + FIVE_MIN / 2; // inside a 5-minute bucket, so both sides share the shard key bucket
    let metric = format!("m{}", rng.below(3));
    let mut next_id = idx as i64 * 100_000;
    let mut ingested: Vec<RowSpec> = vec![];
    // ---- learn the shard id with a probe write before the split
    let probe = gen_batch(rng, sp, &mut next_id, &metric);
    if let Err(e) = ing.write(rows::make_batch(SchemaKind::B, &probe)).await {
        out.inconclusive(&format!("scenario {idx}: probe write failed: {e}"));
        return;
    }
    ingested.extend(probe.clone());
    let shard_id = ctl.events().iter().rev().find(|e| e.call && e.op == "META:get_split_state").map(|e| e.path.clone());
    let Some(shard_id) = shard_id else {
        out.inconclusive("the ingester did not ask the catalog for a split state");
        return;
    };
    let (a, b) = (format!("new-a-{}", idx), format!("new-b-{}", idx));
    let phase = if rng.chance(1, 2) { SplitPhase::DualWrite } else { SplitPhase::Backfill };
    let _ = local.start_split(&shard_id, vec![a.clone(), b.clone()], sp.to_be_bytes().to_vec()).await;
    let _ = local.update_split_progress(&shard_id, 0.3, phase).await;
    // every other scenario: another shard is splitting at the same time (one background split per hot shard is
    // a legal state); its new shards hold nothing here
    if rng.chance(1, 2) {
        let other = format!("shard-other-{}", idx);
        let _ = local.start_split(&other, vec![format!("new-x-{}", idx), format!("new-y-{}", idx)], sp.to_be_bytes().to_vec()).await;
        let _ = local.update_split_progress(&other, 0.5, if rng.chance(1, 2) { SplitPhase::DualWrite } else { SplitPhase::Backfill }).await;
        out.count("scenarios_with_a_second_split_in_progress", 1);
    }
    // ---- writes during the split
    let nb = 1 + rng.usize(3);
    let mut last_accepted: Option<Vec<RowSpec>> = None;
    let mut during_split: Vec<RowSpec> = vec![];
    for bi in 0..nb {
        let mut rows_ = gen_batch(rng, sp, &mut next_id, &metric);
        if rng.chance(1, 3) {
            // genuine exact duplicate inside the batch (same id deliberately: an identical row)
            let d = rows_[rng.usize(rows_.len())].clone();
            rows_.push(d);
        }
        // genuine exact duplicates across requests: now and then the previous request is sent again verbatim (a
        // client re-sending its samples, two scrapers delivering the same scrape) - accepted again, copied again
        if let Some(prev) = &last_accepted {
            if rng.chance(1, 3) {
                rows_ = prev.clone();
                out.count("routing.requests_sent_again_verbatim", 1);
            }
        }
        let before: BTreeSet<String> = local.list_chunks().await.unwrap_or_default().into_iter().map(|c| c.chunk_path).collect();
        // now and then the catalog refuses one of the two split-state lookups of this write (the first or the
        // second): the write may then be refused - but if it is accepted, its rows must have been copied
        let lookup_fault = rng.chance(1, 5);
        if lookup_fault {
            let next = ctl.request_count(Some("ing")) + rng.below(2);
            ctl.set_faults(vec![crate::sim::Fault { actor: Some("ing".into()), index: next, mode: crate::sim::FaultMode::Before }]);
            out.count("routing.writes_with_a_refused_split_lookup", 1);
        }
        let r = ing.write(rows::make_batch(SchemaKind::B, &rows_)).await;
        ctl.set_faults(vec![]);
        if lookup_fault && r.is_err() {
            out.count("routing.writes_refused_after_a_failed_lookup", 1);
            continue;
        }
        out.eval();
        out.count("routing.writes", 1);
        let asked = ctl.events().iter().rev().find(|e| e.call && e.op == "META:get_split_state").map(|e| e.path.clone());
        if asked.as_deref() != Some(shard_id.as_str()) {
            out.count("routing.batch_mapped_to_other_shard", 1);
            continue;
        }
        if let Err(e) = r {
            // C15 speaks about accepted rows; a refused write is an observation (if every write were refused the
            // check would fall below its observation floor and report inconclusive)
            out.count("routing.writes_refused_without_a_fault", 1);
            out.note(&format!("a fault-free write in {:?} was refused: {}", phase, e).chars().take(200).collect::<String>());
            continue;
        }
        ingested.extend(rows_.clone());
        during_split.extend(rows_.clone());
        last_accepted = Some(rows_.clone());
        let after = local.list_chunks().await.unwrap_or_default();
        let mut under_a: Vec<i64> = vec![];
        let mut under_b: Vec<i64> = vec![];
        for c in after.iter().filter(|c| !before.contains(&c.chunk_path)) {
            let ids = rows::read_chunk_ids(store.as_ref(), &c.chunk_path).await.unwrap_or_default();
            if c.chunk_path.contains(&format!("shard={}", a)) {
                under_a.extend(ids);
            } else if c.chunk_path.contains(&format!("shard={}", b)) {
                under_b.extend(ids);
            }
        }
        let mut want_a: Vec<i64> = rows_.iter().filter(|r| r.ts < sp).map(|r| r.id).collect();
        let mut want_b: Vec<i64> = rows_.iter().filter(|r| r.ts >= sp).map(|r| r.id).collect();
        for v in [&mut under_a, &mut under_b, &mut want_a, &mut want_b] {
            v.sort();
        }
        if !want_a.is_empty() && !want_b.is_empty() {
            out.nontrivial(hash_str(&format!("route|{}|{}", idx, bi)));
        }
        if under_a != want_a || under_b != want_b {
            let at_sp_wrong = rows_.iter().any(|r| r.ts == sp && under_a.contains(&r.id));
            out.violation(
                if at_sp_wrong { "C15/routing/row-at-split-point-in-lower-shard" } else { "C15/routing/rows-not-partitioned-by-split-point" },
                &format!("{:?}: new shard A got ids {:?} (expected {:?}), B got {:?} (expected {:?})", phase, under_a, want_a, under_b, want_b),
                json!({"scenario": idx, "seed": ctx.seed, "split_point": sp, "batch": rows_.iter().map(|r| (r.id, r.ts)).collect::<Vec<_>>()}),
            );
        }
    }
    // ---- the new shards as a whole: every row accepted during the split once on its side, as often as it was accepted
    {
        let mut under_a: Vec<i64> = vec![];
        let mut under_b: Vec<i64> = vec![];
        for c in local.list_chunks().await.unwrap_or_default() {
            let in_a = c.chunk_path.contains(&format!("shard={}", a));
            let in_b = c.chunk_path.contains(&format!("shard={}", b));
            if in_a || in_b {
                let ids = rows::read_chunk_ids(store.as_ref(), &c.chunk_path).await.unwrap_or_default();
                if in_a {
                    under_a.extend(ids);
                } else {
                    under_b.extend(ids);
                }
            }
        }
        // (only rows of accepted requests are judged: what a refused request may have left behind is not C15's subject)
        let accepted_ids: BTreeSet<i64> = during_split.iter().map(|r| r.id).collect();
        under_a.retain(|i| accepted_ids.contains(i));
        under_b.retain(|i| accepted_ids.contains(i));
        let mut want_a: Vec<i64> = during_split.iter().filter(|r| r.ts < sp).map(|r| r.id).collect();
        let mut want_b: Vec<i64> = during_split.iter().filter(|r| r.ts >= sp).map(|r| r.id).collect();
        for v in [&mut under_a, &mut under_b, &mut want_a, &mut want_b] {
            v.sort();
        }
        out.eval();
        if under_a != want_a || under_b != want_b {
            out.violation(
                "C15/routing/new-shards-do-not-hold-every-accepted-row-once",
                &format!("{:?}: after {} accepted rows the new shard A holds ids {:?} (expected {:?}), B holds {:?} (expected {:?})", phase, during_split.len(), under_a, want_a, under_b, want_b),
                json!({"scenario": idx, "seed": ctx.seed, "split_point": sp}),
            );
        }
    }
    // ---- a back-filled copy (what ShardSplitter::run_backfill produces: an old-shard chunk re-written under
    //      "<new shard>/backfill_<hex>_<idx>_<a|b>.parquet"), present while the phase is Backfill
    if matches!(phase, SplitPhase::Backfill) {
        use object_store::ObjectStore;
        if let Some(c) = local.list_chunks().await.unwrap_or_default().into_iter().find(|c| !c.chunk_path.contains("shard=")) {
            if let Ok(g) = store.get(&object_store::path::Path::from(c.chunk_path.as_str())).await {
                if let Ok(bytes) = g.bytes().await {
                    let p = format!("{}/backfill_{}_0_b.parquet", b, "6f6c64");
                    let n = bytes.len() as u64;
                    let _ = store.put(&object_store::path::Path::from(p.as_str()), bytes.into()).await;
                    let _ = local
                        .register_chunk(&p, &cardinalsin::ingester::ChunkMetadata { path: p.clone(), min_timestamp: c.min_timestamp, max_timestamp: c.max_timestamp, row_count: c.row_count, size_bytes: n })
                        .await;
                    out.count("reads.scenarios_with_backfilled_copy", 1);
                }
            }
        }
    }
    // ---- reads during the split
    let node = match QueryNode::new(crate::checks::c09::query_config(), store.clone(), local.clone(), storage_config()).await {
        Ok(n) => n,
        Err(e) => {
            out.inconclusive(&format!("query node: {e}"));
            return;
        }
    };
    let (lo, hi) = (sp - 5000, sp + 5000);
    let w = format!("timestamp >= {} AND timestamp <= {}", lo, hi);
    let queries = vec![
        format!("SELECT value_i64, timestamp, host FROM metrics WHERE {}", w),
        format!("SELECT count(*) AS n FROM metrics WHERE {}", w),
        format!("SELECT sum(value_i64) AS s FROM metrics WHERE {}", w),
        format!("SELECT host, count(*) AS n, min(value_i64) AS lo, max(value_i64) AS hi FROM metrics WHERE {} GROUP BY host", w),
        format!("SELECT value_i64 FROM metrics WHERE {} AND timestamp >= {}", w, sp),
        format!("SELECT metric_name, count(*) AS n FROM metrics WHERE {} AND host = 'h1' GROUP BY metric_name", w),
    ];
    // reference tables
    let logical: Vec<RecordBatch> = vec![rows::make_batch(SchemaKind::B, &ingested)];
    let mut physical: Vec<RecordBatch> = vec![];
    for c in local.list_chunks().await.unwrap_or_default() {
        if let Ok(bs) = rows::read_chunk(store.as_ref(), &c.chunk_path).await {
            physical.extend(bs);
        }
    }
    for (qi, sql) in queries.iter().enumerate() {
        let got = match node.query(sql).await {
            Ok(b) => rows::canonical_rows(&b),
            Err(e) => {
                out.violation("C15/read/query-error-during-split", &format!("{}: {}", sql, e), json!({"scenario": idx}));
                continue;
            }
        };
        let want = match sql_over(logical.clone(), sql).await {
            Ok(w) => w,
            Err(_) => continue,
        };
        out.eval();
        out.count("reads.queries", 1);
        if !want.is_empty() {
            out.nontrivial(hash_str(&format!("read|{}|{}", idx, qi)));
        }
        if got == want {
            out.count("reads.exact", 1);
            continue;
        }
        // explained-by test for the recorded finding: exactly the answer over the physical table?
        let phys = sql_over(physical.clone(), sql).await.unwrap_or_default();
        let witness: Value = json!({"scenario": idx, "seed": ctx.seed, "phase": format!("{:?}", phase), "sql": sql, "answer": got.iter().take(12).collect::<Vec<_>>(),
            "reference_no_split": want.iter().take(12).collect::<Vec<_>>(), "reference_physical_table": phys.iter().take(12).collect::<Vec<_>>(), "rows_ingested": ingested.len()});
        if got == phys {
            out.violation(
                "C15/read/answer-equals-physical-table-with-double-written-copies",
                &format!("split-time answer counts the double-written copies: {}", sql),
                witness,
            );
        } else {
            out.violation("C15/read/other-deviation", &format!("split-time answer is neither the no-split answer nor the physical-table answer: {}", sql), witness);
        }
    }
    if idx < 3 {
        out.sample(json!({"scenario": idx, "phase": format!("{:?}", phase), "shard_id": shard_id, "split_point": sp, "rows_ingested": ingested.len(), "queries": queries.len()}));
    }
}

/// Input level: the de-duplication routine on (result + double-written copies).
fn dedup_case(ctx: &Ctx, out: &mut Outcome, rng: &mut Rng, idx: u64) {
    let mut next_id = idx as i64 * 1000;
    let base = gen_batch(rng, 1_000_000, &mut next_id, "m0");
    // some rows share (timestamp, metric) but differ in label / value: distinct series
    let mut rows_ = base.clone();
    if rng.chance(1, 2) {
        let mut r = rows_[0].clone();
        next_id += 1;
        r.id = next_id;
        r.host = Some("other-series".into());
        rows_.push(r);
    }
    let copies: Vec<RowSpec> = rows_.iter().filter(|_| rng.chance(2, 3)).cloned().collect();
    let kind = if rng.chance(1, 2) { SchemaKind::B } else { SchemaKind::T };
    let input = vec![rows::make_batch(kind, &rows_), rows::make_batch(kind, &copies)];
    let got = match cardinalsin::query::verif_dedup_batches(input.iter().filter(|b| b.num_rows() > 0).cloned().collect()) {
        Ok(b) => rows::canonical_rows(&b),
        Err(e) => {
            out.violation("C15/dedup/error", &e.to_string(), json!({"case": idx}));
            return;
        }
    };
    let want = rows::canonical_rows(&[rows::make_batch(kind, &rows_)]);
    out.eval();
    out.count("dedup.applications", 1);
    if !copies.is_empty() {
        out.nontrivial(hash_str(&format!("dedup|{}", idx)));
    }
    if got != want {
        let lost = want.iter().filter(|r| !got.contains(r)).count();
        // The routine is no longer on the query path (copies are excluded when chunks are selected, see the
        // reads lane), so what it does to its input is an observation, not a verdict on the property.
        if lost > 0 {
            out.count("dedup.routine_collapsed_distinct_series(observation only)", 1);
        } else {
            out.count("dedup.routine_kept_copies(observation only)", 1);
        }
        out.note("the private de-duplication routine (unused by the query path since 93de9a8) keys on (timestamp, metric name) and collapses distinct series; observed at input level, not judged");
    }
}
