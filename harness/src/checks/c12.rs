//! C12 — statistics-based chunk pruning never excludes a matching chunk.
//!
//! Oracle: a three-valued SQL evaluator over the rows of a generated chunk.
//! `evaluate_against_stats(p, stats) == false` while some row makes `p` TRUE
//! is a violation. Three lanes: (1) the evaluator itself on random predicate
//! trees, (2) `get_chunks_with_predicates` on catalogs carrying statistics,
//! (3) SQL text -> `extract_column_predicates` -> evaluator, with DataFusion
//! evaluating the same WHERE on the rows.

use crate::outcome::Outcome;
use crate::rng::{hash_str, Rng};
use crate::Ctx;
use cardinalsin::ingester::ChunkMetadata;
use cardinalsin::metadata::{
    ColumnPredicate as P, ColumnStats, MetadataClient, ObjectStoreMetadataClient,
    ObjectStoreMetadataConfig, PredicateValue as V, TimeRange,
};
use serde_json::{json, Value};
use std::collections::HashMap;
use std::sync::Arc;

#[derive(Clone, Debug, PartialEq)]
pub enum Cell {
    I(i64),
    F(f64),
    S(String),
    Null,
}

pub type Row = HashMap<String, Cell>;

const COLS: [(&str, char); 4] = [
    ("value_i64", 'i'),
    ("value_f64", 'f'),
    ("pod", 's'),
    ("host", 's'),
];

fn cmp_cells(a: &Cell, b: &V) -> Option<std::cmp::Ordering> {
    match (a, b) {
        (Cell::Null, _) | (_, V::Null) => None,
        (Cell::I(x), V::Int64(y)) => Some(x.cmp(y)),
        (Cell::I(x), V::Float64(y)) => (*x as f64).partial_cmp(y),
        (Cell::F(x), V::Int64(y)) => x.partial_cmp(&(*y as f64)),
        (Cell::F(x), V::Float64(y)) => x.partial_cmp(y),
        (Cell::S(x), V::String(y)) => Some(x.as_str().cmp(y.as_str())),
        _ => None, // incomparable: generator avoids these
    }
}

fn and3(a: Option<bool>, b: Option<bool>) -> Option<bool> {
    match (a, b) {
        (Some(false), _) | (_, Some(false)) => Some(false),
        (Some(true), Some(true)) => Some(true),
        _ => None,
    }
}
fn or3(a: Option<bool>, b: Option<bool>) -> Option<bool> {
    match (a, b) {
        (Some(true), _) | (_, Some(true)) => Some(true),
        (Some(false), Some(false)) => Some(false),
        _ => None,
    }
}

/// SQL three-valued evaluation of a predicate on one row.
pub fn eval_row(p: &P, row: &Row) -> Option<bool> {
    use std::cmp::Ordering::*;
    let get = |c: &String| row.get(c).cloned().unwrap_or(Cell::Null);
    match p {
        P::Eq(c, v) => cmp_cells(&get(c), v).map(|o| o == Equal),
        P::NotEq(c, v) => cmp_cells(&get(c), v).map(|o| o != Equal),
        P::Lt(c, v) => cmp_cells(&get(c), v).map(|o| o == Less),
        P::LtEq(c, v) => cmp_cells(&get(c), v).map(|o| o != Greater),
        P::Gt(c, v) => cmp_cells(&get(c), v).map(|o| o == Greater),
        P::GtEq(c, v) => cmp_cells(&get(c), v).map(|o| o != Less),
        P::In(c, vs) => {
            let x = get(c);
            let mut any_null = matches!(x, Cell::Null);
            for v in vs {
                match cmp_cells(&x, v) {
                    Some(Equal) => return Some(true),
                    Some(_) => {}
                    None => any_null = true,
                }
            }
            if vs.is_empty() {
                return Some(false);
            }
            if any_null {
                None
            } else {
                Some(false)
            }
        }
        P::NotIn(c, vs) => eval_row(&P::In(c.clone(), vs.clone()), row).map(|b| !b),
        P::Between(c, lo, hi) => and3(
            cmp_cells(&get(c), lo).map(|o| o != Less),
            cmp_cells(&get(c), hi).map(|o| o != Greater),
        ),
        P::And(a, b) => and3(eval_row(a, row), eval_row(b, row)),
        P::Or(a, b) => or3(eval_row(a, row), eval_row(b, row)),
        P::Not(a) => eval_row(a, row).map(|b| !b),
    }
}

fn gen_cell(rng: &mut Rng, ty: char, pool: &[i64]) -> Cell {
    if rng.chance(1, 8) {
        return Cell::Null;
    }
    match ty {
        'i' => Cell::I(*rng.pick(pool) + rng.range(-2, 2)),
        'f' => {
            let base = *rng.pick(pool) as f64;
            Cell::F(match rng.below(4) {
                0 => base,
                1 => base + 0.5,
                2 => base - 0.25,
                _ => base * 1.5,
            })
        }
        _ => {
            let words = ["", "a", "ab", "abc", "b", "ba", "m", "zz", "Zed", "é", "a\u{0}"];
            Cell::S(words[rng.usize(words.len())].to_string())
        }
    }
}

pub fn gen_rows(rng: &mut Rng) -> Vec<Row> {
    let n = 1 + rng.usize(20);
    let pools: [&[i64]; 4] = [
        &[0, 1, 5, 100, 200],
        &[-1000, -1, 0, 7],
        &[i64::MAX - 3, i64::MIN + 3, 0],
        &[9007199254740992, 9007199254740993, 100],
    ];
    // one chunk in eight holds only integers where neighbouring values are the same double (beyond 2^53, next to
    // the ends of the i64 range): comparisons with float literals and exact comparisons disagree there
    let big_pools: [&[i64]; 4] = [&[i64::MAX - 3, i64::MAX - 40], &[i64::MIN + 3, i64::MIN + 50], &[9007199254740992, 9007199254740993, 9007199254740997], &[-9007199254740993, -9007199254740995]];
    let npools = if rng.chance(1, 6) { 4 } else { 2 };
    let pool = if rng.chance(1, 8) { big_pools[rng.usize(4)] } else { pools[rng.usize(npools)] };
    (0..n)
        .map(|_| {
            let mut r = Row::new();
            for (c, ty) in COLS.iter() {
                r.insert(c.to_string(), gen_cell(rng, *ty, pool));
            }
            r
        })
        .collect()
}

fn cell_json(c: &Cell) -> Value {
    match c {
        Cell::I(i) => json!(i),
        Cell::F(f) => json!(f),
        Cell::S(s) => json!(s),
        Cell::Null => Value::Null,
    }
}

fn cell_lt(a: &Cell, b: &Cell) -> bool {
    match (a, b) {
        (Cell::I(x), Cell::I(y)) => x < y,
        (Cell::F(x), Cell::F(y)) => x < y,
        (Cell::S(x), Cell::S(y)) => x < y,
        _ => false,
    }
}

/// True (tight) statistics of the rows, then a seeded variant:
/// true / widened / missing / mistyped.
pub fn gen_stats(rng: &mut Rng, rows: &[Row]) -> (HashMap<String, ColumnStats>, String) {
    let mut stats = HashMap::new();
    let mut kinds = vec![];
    for (c, ty) in COLS.iter() {
        let vals: Vec<Cell> = rows
            .iter()
            .map(|r| r[*c].clone())
            .filter(|v| *v != Cell::Null)
            .collect();
        let has_nulls = vals.len() != rows.len();
        if vals.is_empty() {
            kinds.push("allnull");
            continue;
        }
        let mut mn = vals[0].clone();
        let mut mx = vals[0].clone();
        for v in &vals {
            if cell_lt(v, &mn) {
                mn = v.clone();
            }
            if cell_lt(&mx, v) {
                mx = v.clone();
            }
        }
        let variant = rng.below(10);
        match variant {
            0 => {
                kinds.push("missing");
            }
            1 => {
                // mistyped: wrong JSON type for the column
                kinds.push("mistyped");
                let (a, b) = match ty {
                    's' => (json!(1), json!(2)),
                    _ => (json!("a"), json!("b")),
                };
                stats.insert(c.to_string(), ColumnStats { min: a, max: b, has_nulls });
            }
            2 => {
                kinds.push("nullstats");
                stats.insert(
                    c.to_string(),
                    ColumnStats { min: Value::Null, max: Value::Null, has_nulls },
                );
            }
            3 => {
                // widened but still valid statistics
                kinds.push("widened");
                let (a, b) = match (&mn, &mx) {
                    (Cell::I(a), Cell::I(b)) => (json!(a.saturating_sub(3)), json!(b.saturating_add(3))),
                    (Cell::F(a), Cell::F(b)) => (json!(a - 1.5), json!(b + 1.5)),
                    (Cell::S(_), Cell::S(b)) => (json!(""), json!(format!("{}~", b))),
                    _ => (Value::Null, Value::Null),
                };
                stats.insert(c.to_string(), ColumnStats { min: a, max: b, has_nulls });
            }
            4 if *ty == 'f' => {
                // integral floats written as JSON integers (another encoding of true stats)
                kinds.push("int-encoded");
                let enc = |c: &Cell| match c {
                    Cell::F(f) if f.fract() == 0.0 && f.abs() < 1e15 => json!(*f as i64),
                    other => cell_json(other),
                };
                stats.insert(c.to_string(), ColumnStats { min: enc(&mn), max: enc(&mx), has_nulls });
            }
            _ => {
                kinds.push("true");
                stats.insert(
                    c.to_string(),
                    ColumnStats { min: cell_json(&mn), max: cell_json(&mx), has_nulls },
                );
            }
        }
    }
    (stats, kinds.join(","))
}

fn gen_const(rng: &mut Rng, ty: char, rows: &[Row], col: &str) -> V {
    let vals: Vec<&Cell> = rows.iter().map(|r| &r[col]).filter(|v| **v != Cell::Null).collect();
    if rng.chance(1, 25) {
        return V::Null;
    }
    let pickv = |rng: &mut Rng| -> Option<Cell> {
        if vals.is_empty() {
            None
        } else {
            Some(vals[rng.usize(vals.len())].clone())
        }
    };
    let extreme = |rng: &mut Rng| -> Option<Cell> {
        let mut mn: Option<Cell> = None;
        let mut mx: Option<Cell> = None;
        for v in &vals {
            if mn.as_ref().map(|m| cell_lt(v, m)).unwrap_or(true) {
                mn = Some((*v).clone());
            }
            if mx.as_ref().map(|m| cell_lt(m, v)).unwrap_or(true) {
                mx = Some((*v).clone());
            }
        }
        if rng.chance(1, 2) {
            mn
        } else {
            mx
        }
    };
    let base = match rng.below(10) {
        0..=2 => pickv(rng),
        3..=6 => extreme(rng),
        _ => None,
    };
    match ty {
        'i' | 'f' => {
            let num: f64;
            let mut as_int: Option<i64> = None;
            match base {
                Some(Cell::I(i)) => {
                    let d = *rng.pick(&[0i64, 0, 0, -1, 1]);
                    let v = i.saturating_add(d);
                    as_int = Some(v);
                    num = v as f64;
                }
                Some(Cell::F(f)) => {
                    let d = *rng.pick(&[0.0, 0.0, 0.0, -1.0, 1.0, 0.5]);
                    num = f + d;
                    if num.fract() == 0.0 && num.abs() < 1e15 {
                        as_int = Some(num as i64);
                    }
                }
                _ => {
                    let v = rng.range(-1100, 1100);
                    as_int = Some(v);
                    num = v as f64;
                }
            }
            // constant type: mostly the column's own type, sometimes the other numeric type
            let want_int = if ty == 'i' { !rng.chance(1, 6) } else { rng.chance(1, 6) };
            match (want_int, as_int) {
                (true, Some(i)) => V::Int64(i),
                _ => V::Float64(num),
            }
        }
        _ => match base {
            Some(Cell::S(s)) => match rng.below(4) {
                0 => V::String(format!("{}a", s)),
                1 if !s.is_empty() => V::String(s[..s.len() - s.chars().last().map(|c| c.len_utf8()).unwrap_or(0)].to_string()),
                _ => V::String(s),
            },
            _ => V::String(["", "a", "b", "c", "zzz", "M"][rng.usize(6)].to_string()),
        },
    }
}

/// The same number as a literal of the other numeric type (where it has one).
fn other_numeric_type(v: &V) -> V {
    match v {
        V::Int64(i) => V::Float64(*i as f64),
        V::Float64(f) if f.fract() == 0.0 && f.abs() < 9.0e18 => V::Int64(*f as i64),
        other => other.clone(),
    }
}

pub fn gen_pred(rng: &mut Rng, rows: &[Row], depth: u32, cols: &[(&str, char)]) -> P {
    if depth > 0 && rng.chance(2, 5) {
        let a = gen_pred(rng, rows, depth - 1, cols);
        return match rng.below(5) {
            0 | 1 => P::And(Box::new(a), Box::new(gen_pred(rng, rows, depth - 1, cols))),
            2 | 3 => P::Or(Box::new(a), Box::new(gen_pred(rng, rows, depth - 1, cols))),
            _ => P::Not(Box::new(a)),
        };
    }
    let (c, ty) = cols[rng.usize(cols.len())];
    let col = c.to_string();
    let k = gen_const(rng, ty, rows, c);
    match rng.below(11) {
        0 => P::Eq(col, k),
        1 => P::NotEq(col, k),
        2 => P::Lt(col, k),
        3 | 4 => P::LtEq(col, k),
        5 => P::Gt(col, k),
        6 | 7 => P::GtEq(col, k),
        8 => {
            let n = rng.usize(4);
            let mut list: Vec<V> = (0..n).map(|_| gen_const(rng, ty, rows, c)).collect();
            // operand lists of mixed numeric types (the engine compares them in one common type)
            if n >= 2 && rng.chance(1, 3) {
                let i = rng.usize(n);
                list[i] = other_numeric_type(&list[i]);
            }
            P::In(col, list)
        }
        9 => {
            let n = rng.usize(3);
            P::NotIn(col, (0..n).map(|_| gen_const(rng, ty, rows, c)).collect())
        }
        _ => {
            let mut lo = gen_const(rng, ty, rows, c);
            let mut hi = gen_const(rng, ty, rows, c);
            if rng.chance(1, 3) {
                if rng.chance(1, 2) {
                    lo = other_numeric_type(&lo);
                } else {
                    hi = other_numeric_type(&hi);
                }
            }
            P::Between(col, lo, hi)
        }
    }
}

fn op_name(p: &P) -> &'static str {
    match p {
        P::Eq(..) => "Eq",
        P::NotEq(..) => "NotEq",
        P::Lt(..) => "Lt",
        P::LtEq(..) => "LtEq",
        P::Gt(..) => "Gt",
        P::GtEq(..) => "GtEq",
        P::In(..) => "In",
        P::NotIn(..) => "NotIn",
        P::Between(..) => "Between",
        P::And(..) => "And",
        P::Or(..) => "Or",
        P::Not(..) => "Not",
    }
}

/// Smallest sub-predicate that is itself unsoundly pruned (for the signature).
fn blame<'a>(p: &'a P, stats: &HashMap<String, ColumnStats>, rows: &[Row]) -> &'a P {
    let unsound = |q: &P| !q.evaluate_against_stats(stats) && rows.iter().any(|r| eval_row(q, r) == Some(true));
    match p {
        P::And(a, b) | P::Or(a, b) => {
            if unsound(a) {
                return blame(a, stats, rows);
            }
            if unsound(b) {
                return blame(b, stats, rows);
            }
            p
        }
        P::Not(a) => {
            if unsound(a) {
                return blame(a, stats, rows);
            }
            p
        }
        _ => p,
    }
}

fn rows_json(rows: &[Row]) -> Value {
    json!(rows
        .iter()
        .map(|r| {
            let mut m = serde_json::Map::new();
            for (c, _) in COLS.iter() {
                m.insert(c.to_string(), cell_json(&r[*c]));
            }
            Value::Object(m)
        })
        .collect::<Vec<_>>())
}

fn stats_json(s: &HashMap<String, ColumnStats>) -> Value {
    let mut m = serde_json::Map::new();
    let mut keys: Vec<_> = s.keys().collect();
    keys.sort();
    for k in keys {
        m.insert(k.clone(), json!({"min": s[k].min, "max": s[k].max, "has_nulls": s[k].has_nulls}));
    }
    Value::Object(m)
}

pub fn run(ctx: &Ctx) -> Outcome {
    let mut out = Outcome::new(
        "C12",
        "cases = (chunk rows, statistics variant, predicate tree); non-trivial = the evaluator answered \
         'cannot match' (a pruning decision whose soundness is actually tested), distinct by hash of \
         (predicate, statistics); lane 2 = get_chunks_with_predicates on catalogs with statistics; lane 3 = SQL text \
         through extract_column_predicates with DataFusion evaluating the WHERE on the rows",
    );
    out.assume("reference = SQL three-valued logic; Int/Float comparisons are made in f64 as the SQL engine coerces them");
    out.assume("DataFusion 44 evaluates the WHERE clause correctly on an in-memory table (lane 3)");
    let total: u64 = if ctx.thorough { 14 * 10_000_000 } else { 4_000_000 };
    let mut sample_budget = 3;
    // lane 1
    let mut case = 0u64;
    let range = ctx.my_cases(total);
    let mut rng = ctx.rng("C12", 0);
    let mut rows = gen_rows(&mut rng);
    let (mut stats, mut kind) = gen_stats(&mut rng, &rows);
    for idx in range.clone() {
        if case % 20 == 0 {
            rng = ctx.rng("C12", idx);
            rows = gen_rows(&mut rng);
            let s = gen_stats(&mut rng, &rows);
            stats = s.0;
            kind = s.1;
        }
        case += 1;
        let p = gen_pred(&mut rng, &rows, 4, &COLS);
        let verdict = p.evaluate_against_stats(&stats);
        out.eval();
        let matching = rows.iter().any(|r| eval_row(&p, r) == Some(true));
        if !verdict {
            out.count("lane1.pruned", 1);
            let h = hash_str(&format!("{:?}|{}", p, stats_json(&stats)));
            out.nontrivial(h);
            if sample_budget > 0 && op_name(&p) != "Eq" {
                sample_budget -= 1;
                out.sample(json!({"lane": 1, "predicate": format!("{:?}", p), "stats": stats_json(&stats),
                    "stats_variant": kind, "rows": rows.len(), "evaluator": "cannot match", "row_matches": matching}));
            }
            if matching {
                let b = blame(&p, &stats, &rows);
                let sig = format!("C12/unsound-prune/{}", op_name(b));
                out.violation(
                    &sig,
                    &format!("evaluate_against_stats answered 'cannot match' for {:?} although a row matches", b),
                    json!({"lane": 1, "case_index": idx, "seed": ctx.seed, "predicate": format!("{:?}", p), "blamed": format!("{:?}", b),
                        "stats": stats_json(&stats), "stats_variant": kind, "rows": rows_json(&rows)}),
                );
            }
        } else {
            out.count("lane1.kept", 1);
            if matching {
                out.count("lane1.kept_and_matching", 1);
            }
        }
    }

    // lanes 2 and 3 need a runtime
    let rt = tokio::runtime::Builder::new_current_thread().enable_all().build().unwrap();
    let n2: u64 = if ctx.thorough { 14 * 2000 } else { 600 };
    let n3: u64 = if ctx.thorough { 14 * 10_000 } else { 10_000 };
    rt.block_on(async {
        lane2(ctx, &mut out, n2).await;
        lane3(ctx, &mut out, n3).await;
    });
    out
}

async fn lane2(ctx: &Ctx, out: &mut Outcome, total: u64) {
    for idx in ctx.my_cases(total) {
        let mut rng = ctx.rng("C12-lane2", idx);
        let store = Arc::new(object_store::memory::InMemory::new());
        let client = ObjectStoreMetadataClient::new(store, ObjectStoreMetadataConfig::default());
        let nchunks = 2 + rng.usize(6);
        let mut chunks: Vec<(String, Vec<Row>, HashMap<String, ColumnStats>)> = vec![];
        for c in 0..nchunks {
            let rows = gen_rows(&mut rng);
            let (stats, _k) = gen_stats(&mut rng, &rows);
            let path = format!("t/data/chunk_{c}.parquet");
            let meta = ChunkMetadata {
                path: path.clone(),
                min_timestamp: 1000 + c as i64,
                max_timestamp: 2000 + c as i64,
                row_count: rows.len() as u64,
                size_bytes: 100,
            };
            if client.register_chunk(&path, &meta).await.is_err() {
                out.inconclusive("lane2: register_chunk failed");
                return;
            }
            chunks.push((path, rows, stats));
        }
        let mut all = match client.load_chunk_metadata().await {
            Ok(m) => m,
            Err(_) => {
                out.inconclusive("lane2: load_chunk_metadata failed");
                return;
            }
        };
        for (p, _, s) in &chunks {
            if let Some(e) = all.get_mut(p) {
                e.column_stats = s.clone();
            }
        }
        if client.save_chunk_metadata(&all).await.is_err() {
            out.inconclusive("lane2: save_chunk_metadata failed");
            return;
        }
        for _q in 0..12 {
            let np = 1 + rng.usize(3);
            let all_rows: Vec<Row> = chunks.iter().flat_map(|c| c.1.clone()).collect();
            let preds: Vec<P> = (0..np).map(|_| gen_pred(&mut rng, &all_rows, 2, &COLS)).collect();
            let got = match client
                .get_chunks_with_predicates(TimeRange::new(0, 10_000), &preds)
                .await
            {
                Ok(g) => g,
                Err(e) => {
                    out.inconclusive(&format!("lane2: get_chunks_with_predicates failed: {e}"));
                    return;
                }
            };
            out.eval();
            out.count("lane2.queries", 1);
            let got_paths: std::collections::HashSet<String> =
                got.iter().map(|e| e.chunk_path.clone()).collect();
            if got_paths.len() < chunks.len() {
                out.count("lane2.queries_with_pruning", 1);
                out.nontrivial(hash_str(&format!("l2|{:?}|{}", preds, idx)));
            }
            for (path, rows, stats) in &chunks {
                let matching = rows
                    .iter()
                    .any(|r| preds.iter().all(|p| eval_row(p, r) == Some(true)));
                if matching && !got_paths.contains(path) {
                    let bad = preds
                        .iter()
                        .find(|p| !p.evaluate_against_stats(stats))
                        .map(|p| blame(p, stats, rows))
                        .map(op_name)
                        .unwrap_or("none");
                    out.violation(
                        &format!("C12/catalog-dropped-matching-chunk/{}", bad),
                        "get_chunks_with_predicates dropped a chunk that holds a matching row",
                        json!({"lane": 2, "case_index": idx, "seed": ctx.seed, "predicates": format!("{:?}", preds),
                            "chunk": path, "stats": stats_json(stats), "rows": rows_json(rows)}),
                    );
                }
            }
        }
    }
}

fn sql_const(v: &V) -> String {
    match v {
        V::String(s) => format!("'{}'", s.replace('\'', "''")),
        V::Int64(i) => {
            if *i < 0 {
                format!("({})", i)
            } else {
                format!("{}", i)
            }
        }
        V::Float64(f) => {
            let s = format!("{:?}", f);
            if *f < 0.0 {
                format!("({})", s)
            } else {
                s
            }
        }
        V::Boolean(b) => format!("{}", b),
        V::Null => "NULL".to_string(),
    }
}

pub fn sql_of(p: &P) -> String {
    match p {
        P::Eq(c, v) => format!("{} = {}", c, sql_const(v)),
        P::NotEq(c, v) => format!("{} <> {}", c, sql_const(v)),
        P::Lt(c, v) => format!("{} < {}", c, sql_const(v)),
        P::LtEq(c, v) => format!("{} <= {}", c, sql_const(v)),
        P::Gt(c, v) => format!("{} > {}", c, sql_const(v)),
        P::GtEq(c, v) => format!("{} >= {}", c, sql_const(v)),
        P::In(c, vs) => format!("{} IN ({})", c, vs.iter().map(sql_const).collect::<Vec<_>>().join(", ")),
        P::NotIn(c, vs) => format!("{} NOT IN ({})", c, vs.iter().map(sql_const).collect::<Vec<_>>().join(", ")),
        P::Between(c, lo, hi) => format!("{} BETWEEN {} AND {}", c, sql_const(lo), sql_const(hi)),
        P::And(a, b) => format!("({} AND {})", sql_of(a), sql_of(b)),
        P::Or(a, b) => format!("({} OR {})", sql_of(a), sql_of(b)),
        P::Not(a) => format!("(NOT {})", sql_of(a)),
    }
}

/// The same predicate in one of the spellings SQL offers for it (the negated keyword forms,
/// the flipped comparison, != for <>, a one-element IN for =). Lane 3 compares against
/// DataFusion on the *same text*, so the spelling only has to be valid SQL.
pub fn sql_variant(p: &P, rng: &mut Rng) -> String {
    let alt = rng.chance(1, 2);
    match p {
        P::Not(a) if alt => match a.as_ref() {
            P::Between(c, lo, hi) => format!("{} NOT BETWEEN {} AND {}", c, sql_const(lo), sql_const(hi)),
            P::In(c, vs) => format!("{} NOT IN ({})", c, vs.iter().map(sql_const).collect::<Vec<_>>().join(", ")),
            P::Eq(c, v) => format!("{} != {}", c, sql_const(v)),
            other => format!("NOT ({})", sql_variant(other, rng)),
        },
        P::Between(c, lo, hi) if alt && rng.chance(1, 2) => format!("{} NOT BETWEEN {} AND {}", c, sql_const(lo), sql_const(hi)),
        P::NotEq(c, v) if alt => format!("{} != {}", c, sql_const(v)),
        P::Lt(c, v) if alt => format!("{} > {}", sql_const(v), c),
        P::LtEq(c, v) if alt => format!("{} >= {}", sql_const(v), c),
        P::Gt(c, v) if alt => format!("{} < {}", sql_const(v), c),
        P::GtEq(c, v) if alt => format!("{} <= {}", sql_const(v), c),
        P::Eq(c, v) if alt => format!("{} IN ({})", c, sql_const(v)),
        P::And(a, b) => format!("({} AND {})", sql_variant(a, rng), sql_variant(b, rng)),
        P::Or(a, b) => format!("({} OR {})", sql_variant(a, rng), sql_variant(b, rng)),
        P::Not(a) => format!("(NOT {})", sql_variant(a, rng)),
        other => sql_of(other),
    }
}

fn no_empty_lists(p: &P) -> bool {
    match p {
        P::In(_, v) | P::NotIn(_, v) => !v.is_empty() && !v.iter().any(|x| matches!(x, V::Null)),
        P::And(a, b) | P::Or(a, b) => no_empty_lists(a) && no_empty_lists(b),
        P::Not(a) => no_empty_lists(a),
        P::Eq(_, V::Null) | P::NotEq(_, V::Null) | P::Lt(_, V::Null) | P::LtEq(_, V::Null) | P::Gt(_, V::Null)
        | P::GtEq(_, V::Null) => false,
        P::Between(_, a, b) => !matches!(a, V::Null) && !matches!(b, V::Null),
        _ => true,
    }
}

async fn lane3(ctx: &Ctx, out: &mut Outcome, total: u64) {
    use arrow_array::{Float64Array, Int64Array, RecordBatch, StringArray, TimestampNanosecondArray};
    use arrow_schema::{DataType, Field, Schema, TimeUnit};
    use cardinalsin::query::{CacheConfig, QueryEngine, TieredCache};
    let store: Arc<dyn object_store::ObjectStore> = Arc::new(object_store::memory::InMemory::new());
    let cache = match TieredCache::new(CacheConfig { l1_size: 1 << 20, l2_size: 0, l2_dir: None }).await {
        Ok(c) => Arc::new(c),
        Err(e) => {
            out.inconclusive(&format!("lane3: cache: {e}"));
            return;
        }
    };
    let sc = cardinalsin::StorageConfig {
        provider: cardinalsin::CloudProvider::Memory,
        container: "verif".into(),
        tenant_id: "t".into(),
    };
    let engine = match QueryEngine::new(store, cache, &sc).await {
        Ok(e) => e,
        Err(e) => {
            out.inconclusive(&format!("lane3: engine: {e}"));
            return;
        }
    };
    // lane 3 columns: only plain-typed columns of the default metrics schema
    let cols3: [(&str, char); 3] = [("value_i64", 'i'), ("value_f64", 'f'), ("pod", 's')];
    for idx in ctx.my_cases(total) {
        let mut rng = ctx.rng("C12-lane3", idx);
        let rows = gen_rows(&mut rng);
        let (stats, kind) = gen_stats(&mut rng, &rows);
        let p = loop {
            let p = gen_pred(&mut rng, &rows, 3, &cols3);
            if no_empty_lists(&p) {
                break p;
            }
        };
        // chunks that hold only integers beyond 2^53: half of them get a predicate whose operands sit within two of
        // the chunk's smallest / largest value, each as an integer or a float literal at random - where exact and
        // float comparison part ways
        let ints: Vec<i64> = rows.iter().filter_map(|r| if let Cell::I(i) = r["value_i64"] { Some(i) } else { None }).collect();
        let p = if !ints.is_empty() && ints.iter().all(|i| i.unsigned_abs() > (1u64 << 53)) && rng.chance(2, 3) {
            out.count("lane3.near_tie_predicates_on_integers_beyond_2^53", 1);
            let (mn, mx) = (*ints.iter().min().unwrap(), *ints.iter().max().unwrap());
            let mut operand = |rng: &mut Rng| -> V {
                let v = (if rng.chance(1, 2) { mn } else { mx }).saturating_add(rng.range(-2, 2));
                if rng.chance(1, 2) { V::Int64(v) } else { V::Float64(v as f64) }
            };
            if rng.chance(3, 5) {
                let (a, b) = (operand(&mut rng), operand(&mut rng));
                P::Between("value_i64".into(), a, b)
            } else {
                let n = 2 + rng.usize(2);
                P::In("value_i64".into(), (0..n).map(|_| operand(&mut rng)).collect())
            }
        } else {
            p
        };
        let where_sql = if idx % 2 == 0 { sql_of(&p) } else { sql_variant(&p, &mut rng) };
        if where_sql.contains("NOT BETWEEN") {
            out.count("lane3.sql_not_between", 1);
        }
        // the usual shape (with a time window) extracts nothing on this tree because the
        // converter gives up on a conjunction containing a timestamp comparison; so most
        // cases use the bare predicate, which is what reaches the evaluator
        // a second predicate for the statement shapes that read the table more than once
        let p2 = loop {
            let p = gen_pred(&mut rng, &rows, 2, &cols3);
            if no_empty_lists(&p) {
                break p;
            }
        };
        let where2 = sql_of(&p2);
        // (count_sql: the same statement as a row count, for the reference)
        let (sql, count_sql, shape): (String, String, &str) = match idx % 12 {
            0 | 5 => (
                format!("SELECT * FROM metrics WHERE timestamp >= 0 AND timestamp <= 100 AND {}", where_sql),
                format!("SELECT count(*) FROM metrics WHERE {}", where_sql),
                "time-window",
            ),
            7 => {
                // a union of two filtered selections is a disjunction of their WHEREs
                let q = format!("SELECT * FROM metrics WHERE {} UNION ALL SELECT * FROM metrics WHERE {}", where_sql, where2);
                (q.clone(), format!("SELECT count(*) FROM ({}) u", q), "union-all")
            }
            9 => {
                // two CTEs over the table, joined: each side needs its own chunks
                let q = format!(
                    "WITH a AS (SELECT pod, value_i64 FROM metrics WHERE {}), b AS (SELECT pod, value_f64 FROM metrics WHERE {}) SELECT a.pod, a.value_i64, b.value_f64 FROM a CROSS JOIN b",
                    where_sql, where2
                );
                (q.clone(), format!("SELECT count(*) FROM ({}) j", q), "cte-join")
            }
            11 => {
                // a derived table that re-uses a base column's name for a computed column: the outer filter is not
                // a filter on the stored column
                let q = format!("SELECT * FROM (SELECT value_i64 * 2 + 1 AS value_i64, value_f64 / 4 - 3 AS value_f64, pod FROM metrics) d WHERE {}", where_sql);
                (q.clone(), format!("SELECT count(*) FROM ({}) s", q), "alias-shadowing")
            }
            _ => (format!("SELECT * FROM metrics WHERE {}", where_sql), format!("SELECT count(*) FROM metrics WHERE {}", where_sql), "plain"),
        };
        out.count(&format!("lane3.shape.{}", shape), 1);
        let preds = match engine.extract_column_predicates(&sql).await {
            Ok(p) => p,
            Err(e) => {
                out.count("lane3.sql_rejected", 1);
                out.note(&format!("lane3: a generated SQL was rejected by the planner: {}", e).chars().take(200).collect::<String>());
                continue;
            }
        };
        out.eval();
        out.count("lane3.sql", 1);
        let keep = preds.iter().all(|q| q.evaluate_against_stats(&stats));
        if preds.is_empty() {
            out.count("lane3.no_predicate_extracted", 1);
        }
        if keep {
            continue;
        }
        out.count("lane3.pruned", 1);
        out.nontrivial(hash_str(&format!("l3|{}|{}", where_sql, stats_json(&stats))));
        // reference: DataFusion on the rows
        let schema = Arc::new(Schema::new(vec![
            Field::new("timestamp", DataType::Timestamp(TimeUnit::Nanosecond, Some("UTC".into())), false),
            Field::new("value_i64", DataType::Int64, true),
            Field::new("value_f64", DataType::Float64, true),
            Field::new("pod", DataType::Utf8, true),
        ]));
        let ts: Vec<i64> = (0..rows.len() as i64).collect();
        let vi: Vec<Option<i64>> = rows.iter().map(|r| if let Cell::I(i) = r["value_i64"] { Some(i) } else { None }).collect();
        let vf: Vec<Option<f64>> = rows.iter().map(|r| if let Cell::F(f) = r["value_f64"] { Some(f) } else { None }).collect();
        let vs: Vec<Option<String>> = rows.iter().map(|r| if let Cell::S(s) = &r["pod"] { Some(s.clone()) } else { None }).collect();
        let batch = RecordBatch::try_new(
            schema.clone(),
            vec![
                Arc::new(TimestampNanosecondArray::from(ts).with_timezone("UTC")),
                Arc::new(Int64Array::from(vi)),
                Arc::new(Float64Array::from(vf)),
                Arc::new(StringArray::from(vs)),
            ],
        )
        .unwrap();
        let rctx = datafusion::prelude::SessionContext::new();
        let mt = datafusion::datasource::MemTable::try_new(schema, vec![vec![batch]]).unwrap();
        rctx.register_table("metrics", Arc::new(mt)).unwrap();
        let n = match rctx.sql(&count_sql).await {
            Ok(df) => match df.collect().await {
                Ok(b) => {
                    use arrow_array::cast::AsArray;
                    b[0].column(0).as_primitive::<arrow_array::types::Int64Type>().value(0)
                }
                Err(_) => continue,
            },
            Err(_) => continue,
        };
        if n > 0 {
            let blamed = preds
                .iter()
                .find(|q| !q.evaluate_against_stats(&stats))
                .map(|q| blame(q, &stats, &rows))
                .map(op_name)
                .unwrap_or("none");
            out.violation(
                &format!("C12/unsound-prune/{}", blamed),
                "SQL predicate pushed down and pruned although DataFusion finds matching rows",
                json!({"lane": 3, "case_index": idx, "seed": ctx.seed, "where": where_sql, "statement": sql, "shape": shape, "extracted": format!("{:?}", preds),
                    "stats": stats_json(&stats), "stats_variant": kind, "rows": rows_json(&rows), "matching_rows": n}),
            );
        }
    }
}
