//! C03 — compaction never loses or duplicates stored rows.
//!
//! SIM: datasets are built through the real ingester (every row carries a
//! unique id), then one or two real `Compactor`s — each with its own catalog
//! client (so candidate lists can be stale) or sharing the in-memory backend —
//! run compaction cycles interleaved at object-store-request granularity, with
//! request faults (before / after effect), crashes of a compactor at any gate
//! (its tasks, including the lease-renewal task, stop; a fresh instance takes
//! over), and clock jumps past the lease TTL while a holder is parked.
//! Monitors: (a) EVERY catalog version ever written must reach every original
//! row id at least once; (b) when no cycle is running any more, every id
//! exactly once; (c) a merged chunk's level = max(level of the chunks it
//! replaced) + 1; (d) every chunk the final catalog lists is readable.

use crate::checks::c01::storage_config;
use crate::checks::c02::committed_puts;
use crate::clock;
use crate::outcome::Outcome;
use crate::rng::{hash_str, Rng};
use crate::rows::{self, RowSpec, SchemaKind};
use crate::sim::{self, Ctl, Fault, FaultMode, Scheduler, Step, Strategy};
use crate::simmeta::RecMeta;
use crate::Ctx;
use cardinalsin::compactor::{Compactor, CompactorConfig};
use cardinalsin::ingester::{Ingester, IngesterConfig, WalConfig, WalSyncMode};
use cardinalsin::metadata::{
    LocalMetadataClient, MetadataCatalog, MetadataClient, ObjectStoreMetadataClient, ObjectStoreMetadataConfig,
};
use cardinalsin::schema::MetricSchema;
use cardinalsin::sharding::{HotShardConfig, ShardMonitor};
use object_store::ObjectStore;
use serde_json::{json, Value};
use std::collections::{BTreeMap, BTreeSet, HashMap};
use std::path::PathBuf;
use std::sync::Arc;
use std::time::Duration;

const H: i64 = 3_600_000_000_000;

pub fn no_wal_ingester_config() -> IngesterConfig {
    IngesterConfig {
        flush_interval: Duration::from_secs(3600),
        flush_row_count: 1, // every write becomes its own chunk
        flush_size_bytes: 1 << 30,
        batch_timeout: Duration::from_millis(10),
        batch_size_bytes: 1 << 20,
        flush_parallelism: 1,
        max_buffer_size_bytes: 1 << 30,
        wal: WalConfig { wal_dir: PathBuf::from("/nonexistent"), max_segment_size: 1 << 20, sync_mode: WalSyncMode::None, enabled: false },
    }
}

/// Build `nchunks` L0 chunks through the real ingester. Returns id -> () of everything written.
pub async fn build_dataset(
    store: Arc<dyn ObjectStore>,
    meta: Arc<dyn MetadataClient>,
    rng: &mut Rng,
    nchunks: usize,
    nbuckets: i64,
    first_id: i64,
    mixed_schema: bool,
    base_ns: i64,
) -> Result<Vec<i64>, String> {
    let ing = Ingester::new(no_wal_ingester_config(), store, meta, storage_config(), MetricSchema::default_metrics());
    let mut ids = vec![];
    let mut next = first_id;
    // now and then one chunk longer than a Parquet reader batch (1024 / 8192 rows), so that
    // a merge input arrives as several record batches
    let mut sizes: Vec<usize> = (0..nchunks)
        .map(|c| if c == 0 && rng.chance(1, 12) { if rng.chance(1, 3) { 8193 + rng.usize(200) } else { 1025 + rng.usize(600) } } else { 1 + rng.usize(5) })
        .collect();
    // ... and now and then a dataset that sits in one hour and holds exactly 1024 / 8192 / 16384 rows in all: what a
    // merge of it writes is a whole number of encoder batches
    let exact_total = nchunks > 0 && rng.chance(1, 16);
    if exact_total {
        let total = *rng.pick(&[1024usize, 8192, 8192, 16384]);
        let others: usize = sizes.iter().skip(1).sum();
        sizes[0] = total - others.min(total - 1);
    }
    for c in 0..nchunks {
        let bucket = if exact_total { 0 } else { rng.range(0, nbuckets - 1) };
        let k = sizes[c];
        let rows: Vec<RowSpec> = (0..k)
            .map(|_| {
                next += 1;
                ids.push(next);
                RowSpec {
                    id: next,
                    ts: base_ns - bucket * H - rng.range(1, H - 1),
                    metric: format!("m{}", rng.below(3)),
                    host: Some(format!("h{}", rng.below(3))),
                    value: next as f64,
                }
            })
            .collect();
        let kind = if mixed_schema && c % 3 == 2 { SchemaKind::A } else { SchemaKind::B };
        ing.write(rows::make_batch(kind, &rows)).await.map_err(|e| e.to_string())?;
    }
    Ok(ids)
}

pub fn compactor_config(rng: &mut Rng) -> CompactorConfig {
    CompactorConfig {
        l0_merge_threshold: 2 + rng.usize(3),
        l0_target_size: 1 << 20,
        l1_target_size: *rng.pick(&[2_000usize, 4_000, 9_000]),
        l2_target_size: *rng.pick(&[5_000usize, 12_000]),
        max_levels: 2 + rng.usize(3),
        retention_days: 90,
        downsample_after_days: 7,
        downsample_resolution: Duration::from_secs(60),
        check_interval: Duration::from_secs(60),
        gc_grace_period: Duration::from_secs(*rng.pick(&[0u64, 1, 300])),
        sharding_enabled: false,
    }
}

pub fn run(ctx: &Ctx) -> Outcome {
    let mut out = Outcome::new(
        "C03",
        "case = one scenario: dataset of 3-14 L0 chunks over 1-3 hour buckets, 1-2 compactors x 1-3 cycles interleaved at request granularity \
         with 0-2 request faults, optional crash+restart of a compactor and clock jumps past the lease TTL; every catalog version checked for \
         reachability of every original row, the final state for exactly-once, merged chunks for level arithmetic; non-trivial = at least one \
         compaction swap was committed in the scenario, distinct by scheduler decision string",
    );
    out.assume("all rows lie inside the retention window; InMemory conditional PUT trusted; chunk objects are write-once");
    let scenarios: u64 = if ctx.thorough { 14 * 12_000 } else { 4_000 };
    for idx in ctx.my_cases(scenarios) {
        let mut rng = ctx.rng("C03", idx);
        scenario(ctx, &mut out, &mut rng, idx);
    }
    clock::unfreeze_wall();
    local_swap_stress(ctx, &mut out);
    out
}

/// Lane STRESS (in-memory catalog): the publication step of two compactions of the *same* sources
/// (what happens when a lease expired while its holder was still working and someone else took the
/// chunks) issued from real threads at the same instant. Exactly one may win; the loser must be refused
/// and leave nothing behind - otherwise the rows of the sources are there twice. The simulator cannot
/// reach inside this step on the in-memory catalog (it is one call there).
fn local_swap_stress(ctx: &Ctx, out: &mut Outcome) {
    use cardinalsin::ingester::ChunkMetadata;
    let rounds: u64 = if ctx.thorough { 14 * 4000 } else { 3000 };
    let my: Vec<u64> = ctx.my_cases(rounds).collect();
    if my.is_empty() {
        return;
    }
    let rt = tokio::runtime::Builder::new_multi_thread().worker_threads(4).enable_all().build().unwrap();
    rt.block_on(async {
        for idx in my {
            let mut rng = ctx.rng("C03-swap-stress", idx);
            let local: Arc<dyn MetadataClient> = Arc::new(LocalMetadataClient::new());
            let nsrc = 1 + rng.usize(3);
            let sources: Vec<String> = (0..nsrc).map(|i| format!("t/data/src{}.parquet", i)).collect();
            for s in &sources {
                let _ = local.register_chunk(s, &ChunkMetadata { path: s.clone(), min_timestamp: 10, max_timestamp: 20, row_count: 5, size_bytes: 50 }).await;
            }
            let k = 2 + rng.usize(3);
            let barrier = Arc::new(std::sync::Barrier::new(k));
            let mut hs = vec![];
            for t in 0..k {
                let (c, b, srcs) = (local.clone(), barrier.clone(), sources.clone());
                hs.push(tokio::task::spawn_blocking(move || {
                    let target = format!("t/data/compacted/target{}.parquet", t);
                    let md = ChunkMetadata { path: target.clone(), min_timestamp: 10, max_timestamp: 20, row_count: 5 * srcs.len() as u64, size_bytes: 100 };
                    b.wait();
                    let h = tokio::runtime::Handle::current();
                    h.block_on(async { c.swap_compacted_chunk(&srcs, &md).await.map_err(|e| e.to_string()) })
                }));
            }
            let mut oks = 0;
            for h in hs {
                if let Ok(Ok(())) = h.await {
                    oks += 1;
                }
            }
            out.eval();
            out.count("swap_stress.rounds", 1);
            let listed: Vec<(String, u64)> = local.list_chunks().await.unwrap_or_default().into_iter().map(|c| (c.chunk_path, c.row_count)).collect();
            let rows: u64 = listed.iter().map(|c| c.1).sum();
            let want_rows = 5 * nsrc as u64;
            if oks != 1 {
                out.count("swap_stress.rounds_without_exactly_one_winner", 1);
            }
            // the verdict is about rows (each source row reachable exactly once), not about who won
            if rows != want_rows {
                out.violation(
                    if rows > want_rows { "C03/local/concurrent-swaps-duplicate-rows" } else { "C03/local/concurrent-swaps-lose-rows" },
                    &format!("{} concurrent swaps of the same {} source chunk(s) ({} rows): {} reported success, the catalog then lists {:?} ({} rows)", k, nsrc, want_rows, oks, listed, rows),
                    json!({"lane": "swap-stress", "round": idx, "seed": ctx.seed}),
                );
            } else {
                out.nontrivial(crate::rng::hash_str(&format!("swapstress|{}|{}|{}", idx, k, nsrc)));
            }
        }
    });
}

struct ScenarioResult {
    events: Vec<crate::sim::Event>,
    decisions: String,
    hung: bool,
    original: Vec<i64>,
    chunk_ids: HashMap<String, Vec<i64>>,
    local_snapshots: Vec<Vec<String>>,
    final_list: Result<Vec<(String, u64)>, String>,
    final_unreadable: Vec<String>,
    cycles: Vec<String>,
    setup_err: Option<String>,
    crashes: u64,
    jumps: u64,
}

fn scenario(ctx: &Ctx, out: &mut Outcome, rng: &mut Rng, idx: u64) {
    let local_backend = rng.chance(1, 3);
    let ncomp = 1 + rng.usize(2);
    let nchunks = 3 + rng.usize(12);
    let nbuckets = 1 + rng.range(0, 2);
    let mixed = rng.chance(1, 8);
    let cycles_per = 1 + rng.usize(3);
    let cfgs: Vec<CompactorConfig> = (0..ncomp).map(|_| compactor_config(rng)).collect();
    let nfaults = *rng.pick(&[0usize, 0, 0, 1, 1, 2]);
    let faults: Vec<Fault> = (0..nfaults)
        .map(|_| Fault { actor: None, index: rng.below(120), mode: if rng.chance(1, 2) { FaultMode::Before } else { FaultMode::After } })
        .collect();
    // a burst of lost compare-and-swap races on the metadata objects (5 = a client's whole retry budget)
    let contention: Option<(u64, u64)> = if !local_backend && rng.chance(1, 5) { Some((rng.below(25), *rng.pick(&[2u64, 5, 5, 7]))) } else { None };
    let crash_at: Option<u64> = if rng.chance(1, 3) { Some(rng.below(90)) } else { None };
    let jump_permille = *rng.pick(&[0u64, 0, 15, 40]);
    let strategy = if rng.chance(2, 3) { Strategy::Uniform } else { Strategy::Pct { change_points: (0..3).map(|_| rng.below(120)).collect() } };
    let sched_rng = rng.fork(1);
    let mut data_rng = rng.fork(2);
    let mut clock_rng = rng.fork(3);
    let plan_json = json!({"backend": if local_backend {"local"} else {"object-store"}, "compactors": ncomp, "chunks": nchunks, "hour_buckets": nbuckets,
        "mixed_schema": mixed, "cycles_each": cycles_per, "faults": faults.iter().map(|f| format!("#{} {:?}", f.index, f.mode)).collect::<Vec<_>>(),
        "crash_at_step": crash_at, "clock_jump_permille": jump_permille, "lost_cas_burst": contention.map(|(f, c)| format!("conditional PUTs #{}..#{}", f, f + c)),
        "configs": cfgs.iter().map(|c| format!("l0_threshold={} l1_target={} l2_target={} max_levels={} grace={:?}", c.l0_merge_threshold, c.l1_target_size, c.l2_target_size, c.max_levels, c.gc_grace_period)).collect::<Vec<_>>()});
    let faults2 = faults.clone();

    let res: ScenarioResult = sim::run_sim(async move {
        clock::freeze_wall(clock::SIM_EPOCH_NS);
        let ctl = Ctl::new();
        let local = Arc::new(LocalMetadataClient::new());
        let seed_meta: Arc<dyn MetadataClient> = if local_backend {
            local.clone()
        } else {
            Arc::new(ObjectStoreMetadataClient::new(ctl.store("seed"), ObjectStoreMetadataConfig::default()))
        };
        let original = match build_dataset(ctl.store("seed"), seed_meta, &mut data_rng, nchunks, nbuckets, idx as i64 * 100_000, mixed, clock::SIM_EPOCH_NS - 60_000_000_000).await {
            Ok(v) => v,
            Err(e) => {
                return ScenarioResult { events: vec![], decisions: String::new(), hung: false, original: vec![], chunk_ids: HashMap::new(), local_snapshots: vec![],
                    final_list: Err(String::new()), final_unreadable: vec![], cycles: vec![], setup_err: Some(e), crashes: 0, jumps: 0 }
            }
        };
        let mut chunk_ids: HashMap<String, Vec<i64>> = HashMap::new();
        let mut scanned = 0usize;
        // index the data objects written so far
        async fn index_new(ctl: &Ctl, scanned: &mut usize, chunk_ids: &mut HashMap<String, Vec<i64>>) {
            let evs = ctl.events_from(*scanned);
            *scanned += evs.len();
            for e in evs {
                if !e.call && e.op == "PUT" && e.path.ends_with(".parquet") && (e.result == "ok" || e.result.starts_with("injected-after(applied")) {
                    if let Ok(ids) = rows::read_chunk_ids(ctl.backing.as_ref(), &e.path).await {
                        chunk_ids.insert(e.path.clone(), ids);
                    }
                }
            }
        }
        index_new(&ctl, &mut scanned, &mut chunk_ids).await;
        let start = ctl.events_len();
        ctl.reset_counters();
        ctl.set_faults(faults2);
        ctl.set_contention(contention.map(|(from, count)| sim::Contention { path_contains: ".json".into(), from, count }));
        // with the in-memory backend the catalog calls themselves are the gates
        ctl.set_gating(true);
        let monitor = Arc::new(ShardMonitor::new(HotShardConfig::default()));
        let spawn_compactor = |name: String, cfg: CompactorConfig, cycles: usize, ctl: Arc<Ctl>, local: Arc<LocalMetadataClient>, monitor: Arc<ShardMonitor>| {
            let meta: Arc<dyn MetadataClient> = if local_backend {
                RecMeta::new(local.clone(), ctl.clone(), &name)
            } else {
                RecMeta::new(
                    Arc::new(ObjectStoreMetadataClient::new(ctl.store(&name), ObjectStoreMetadataConfig::default())),
                    ctl.clone(),
                    &format!("{}.meta", name),
                )
            };
            let comp = Compactor::new(cfg, ctl.store(&name), meta, storage_config(), monitor);
            let ctl2 = ctl.clone();
            let name2 = name.clone();
            sim::spawn_actor(&name, async move {
                for c in 0..cycles {
                    let r = comp.run_compaction_cycle().await;
                    ctl2.mark(&name2, "CYCLE", &format!("{}", c), &match r {
                        Ok(()) => "ok".to_string(),
                        Err(e) => format!("err: {}", e),
                    });
                }
            })
        };
        if !local_backend {
            // object-store backend: the catalog calls are not gates (their store requests are)
            ctl.set_gate_filter(Some(Arc::new(|p: &crate::sim::ParkedInfo| !p.op.starts_with("META:"))));
        }
        let mut handles: Vec<(String, tokio::task::JoinHandle<()>)> = vec![];
        for (i, cfg) in cfgs.iter().cloned().enumerate() {
            let name = format!("c{}", i);
            handles.push((name.clone(), spawn_compactor(name, cfg, cycles_per, ctl.clone(), local.clone(), monitor.clone())));
        }
        let mut sched = Scheduler::new(sched_rng, strategy);
        let mut hung = false;
        let mut crashes = 0u64;
        let mut jumps = 0u64;
        let mut local_snapshots: Vec<Vec<String>> = vec![];
        loop {
            if handles.iter().all(|h| h.1.is_finished()) {
                break;
            }
            if let Some(at) = crash_at {
                if sched.steps == at && crashes == 0 {
                    // crash one compactor process: its tasks (incl. lease renewal) stop, a fresh one takes over
                    if let Some(pos) = handles.iter().position(|h| !h.1.is_finished()) {
                        sim::barrier().await;
                        let (name, h) = handles.remove(pos);
                        h.abort();
                        ctl.kill_actors(&name);
                        ctl.mark(&name, "CRASH", "", "");
                        sched.decisions.push_str(&format!("X{} ", name));
                        crashes += 1;
                        let nn = format!("{}r", name);
                        let cfg = cfgs[0].clone();
                        handles.push((nn.clone(), spawn_compactor(nn, cfg, cycles_per, ctl.clone(), local.clone(), monitor.clone())));
                    }
                }
            }
            if clock_rng.below(1000) < jump_permille {
                sim::barrier().await;
                let d = *clock_rng.pick(&[30i64, 200, 301, 400, 900]);
                clock::advance_wall(d * 1_000_000_000);
                ctl.mark("clock", "CLOCK", &format!("+{}s", d), "");
                sched.decisions.push_str(&format!("T{} ", d));
                jumps += 1;
            }
            let st = sched.step(&ctl).await;
            if let Step::Released(_) = st {
                sim::barrier().await;
                index_new(&ctl, &mut scanned, &mut chunk_ids).await;
                if local_backend {
                    if let Ok(l) = local.list_chunks().await {
                        let mut p: Vec<String> = l.into_iter().map(|e| e.chunk_path).collect();
                        p.sort();
                        if local_snapshots.last() != Some(&p) {
                            local_snapshots.push(p);
                        }
                    }
                }
            }
            if sched.steps > 60_000 {
                hung = true;
                break;
            }
        }
        ctl.set_gating(false);
        ctl.set_faults(vec![]);
        ctl.set_contention(None);
        index_new(&ctl, &mut scanned, &mut chunk_ids).await;
        // final state through a fresh client
        let fresh: Arc<dyn MetadataClient> = if local_backend {
            local.clone()
        } else {
            Arc::new(ObjectStoreMetadataClient::new(ctl.store("fresh"), ObjectStoreMetadataConfig::default()))
        };
        let final_list = fresh.list_chunks().await.map(|v| v.into_iter().map(|e| (e.chunk_path, e.row_count)).collect::<Vec<_>>()).map_err(|e| e.to_string());
        let mut final_unreadable = vec![];
        if let Ok(l) = &final_list {
            for (p, _) in l {
                if rows::read_chunk_ids(ctl.backing.as_ref(), p).await.is_err() {
                    final_unreadable.push(p.clone());
                }
            }
        }
        let events = ctl.events_from(start);
        let cycles = events.iter().filter(|e| e.op == "CYCLE").map(|e| format!("{} cycle {} -> {}", e.actor, e.path, e.result)).collect();
        ScenarioResult { events, decisions: sched.decisions.clone(), hung, original, chunk_ids, local_snapshots, final_list, final_unreadable, cycles, setup_err: None, crashes, jumps }
    });

    if let Some(e) = res.setup_err {
        out.inconclusive(&format!("scenario {idx}: dataset could not be built: {e}"));
        return;
    }
    out.eval();
    if res.hung {
        out.inconclusive(&format!("scenario {idx} did not finish within 60000 steps"));
        return;
    }
    out.count("compactor_crashes", res.crashes);
    if res.original.len() > 1000 {
        out.count("scenarios_with_a_chunk_over_1024_rows", 1);
        if res.original.len() > 8192 {
            out.count("scenarios_with_a_chunk_over_8192_rows", 1);
        }
    }
    out.count("clock_jumps", res.jumps);
    out.count("cycles_run", res.cycles.len() as u64);
    out.count("cycles_failed", res.cycles.iter().filter(|c| c.contains("err")).count() as u64);
    let injected = res.events.iter().filter(|e| e.result.starts_with("injected")).count() as u64;
    out.count("injected_faults_hit", injected);
    out.count("lost_cas_races_injected", res.events.iter().filter(|e| e.actor == "contender" && !e.call).count() as u64);
    out.count("cycles_failed_with_retry_exhaustion", res.cycles.iter().filter(|c| c.to_lowercase().contains("retries")).count() as u64);
    let original: BTreeSet<i64> = res.original.iter().cloned().collect();
    let witness = |extra: Value| {
        json!({"scenario_index": idx, "seed": ctx.seed, "plan": plan_json, "decisions": res.decisions, "cycles": res.cycles, "detail": extra,
            "events": res.events.iter().filter(|e| e.op != "GET" || e.result.starts_with("injected")).map(|e| e.brief()).collect::<Vec<_>>()})
    };
    let count_ids = |paths: &[String]| -> (BTreeMap<i64, u32>, Vec<String>) {
        let mut m = BTreeMap::new();
        let mut unknown = vec![];
        for p in paths {
            match res.chunk_ids.get(p) {
                Some(ids) => {
                    for i in ids {
                        *m.entry(*i).or_insert(0u32) += 1;
                    }
                }
                None => unknown.push(p.clone()),
            }
        }
        (m, unknown)
    };
    let mut swaps = 0u64;
    // ---- (a) every version reaches every original id; (c) level arithmetic
    if !local_backend {
        let puts = committed_puts(&res.events, "catalog.json");
        out.count("catalog_versions_checked", puts.len() as u64);
        let mut prev: Option<MetadataCatalog> = None;
        for (seq, actor, payload, _mode, _etag) in &puts {
            let cat: MetadataCatalog = match serde_json::from_slice(payload) {
                Ok(c) => c,
                Err(e) => {
                    out.violation("C03/unparsable-catalog-version", &e.to_string(), witness(json!(null)));
                    continue;
                }
            };
            let paths: Vec<String> = cat.chunks.keys().cloned().collect();
            let (m, unknown) = count_ids(&paths);
            if !unknown.is_empty() {
                out.violation(
                    "C03/catalog-lists-object-never-written",
                    &format!("catalog version at seq {} (by {}) lists {:?} for which no data object was ever uploaded", seq, actor, unknown),
                    witness(json!({"version_seq": seq})),
                );
            }
            let lost: Vec<i64> = original.iter().filter(|i| !m.contains_key(i)).cloned().collect();
            if !lost.is_empty() {
                out.violation(
                    "C03/rows-unreachable-in-a-catalog-version",
                    &format!("catalog version at seq {} (by {}) does not reach {} original row(s) {:?}", seq, actor, lost.len(), lost.iter().take(6).collect::<Vec<_>>()),
                    witness(json!({"version_seq": seq, "chunks_in_version": paths})),
                );
            }
            if let Some(p) = &prev {
                let removed: Vec<&String> = p.chunks.keys().filter(|k| !cat.chunks.contains_key(*k)).collect();
                let added: Vec<&String> = cat.chunks.keys().filter(|k| !p.chunks.contains_key(*k)).collect();
                if !removed.is_empty() && added.iter().chain(cat.chunks.keys().filter(|k| k.contains("compacted")).collect::<Vec<_>>().iter()).next().is_some() {
                    // a swap: the merged chunk is the compacted chunk whose level changed or that was added
                    let merged: Vec<&String> = cat
                        .chunks
                        .iter()
                        .filter(|(k, v)| k.contains("compacted") && p.chunks.get(*k).map(|o| o.level != v.level).unwrap_or(true))
                        .map(|(k, _)| k)
                        .collect();
                    if merged.len() == 1 {
                        swaps += 1;
                        let merged_rows = cat.chunks[merged[0]].base.row_count;
                        if merged_rows >= 1024 && merged_rows % 1024 == 0 {
                            out.count("merges_writing_a_whole_number_of_1024_row_batches", 1);
                            if merged_rows % 8192 == 0 {
                                out.count("merges_writing_a_whole_number_of_8192_row_batches", 1);
                            }
                        }
                        let want = removed.iter().map(|r| p.chunks[*r].level).max().unwrap_or(0) + 1;
                        let got = cat.chunks[merged[0]].level;
                        if got != want {
                            out.violation(
                                "C03/merged-chunk-level",
                                &format!("merged chunk {} has level {} but replaced chunks of max level {}", merged[0], got, want - 1),
                                witness(json!({"version_seq": seq})),
                            );
                        }
                    }
                }
            }
            prev = Some(cat);
        }
    } else {
        out.count("catalog_snapshots_checked", res.local_snapshots.len() as u64);
        for (i, snap) in res.local_snapshots.iter().enumerate() {
            let (m, _unknown) = count_ids(snap);
            let lost: Vec<i64> = original.iter().filter(|i| !m.contains_key(i)).cloned().collect();
            if !lost.is_empty() {
                out.violation(
                    "C03/rows-unreachable-in-a-catalog-version",
                    &format!("in-memory catalog snapshot #{} does not reach {} original row(s) {:?}", i, lost.len(), lost.iter().take(6).collect::<Vec<_>>()),
                    witness(json!({"snapshot": snap})),
                );
                break;
            }
            if i > 0 && snap.iter().any(|p| p.contains("compacted") && !res.local_snapshots[i - 1].contains(p)) {
                swaps += 1;
            }
        }
    }
    // ---- (b) final, quiescent state: exactly once; (d) readable
    match &res.final_list {
        Ok(l) => {
            let paths: Vec<String> = l.iter().map(|x| x.0.clone()).collect();
            let (m, unknown) = count_ids(&paths);
            if !unknown.is_empty() {
                out.violation("C03/catalog-lists-object-never-written", &format!("{:?}", unknown), witness(json!({"final": true})));
            }
            let lost: Vec<i64> = original.iter().filter(|i| !m.contains_key(i)).cloned().collect();
            let dup: Vec<i64> = m.iter().filter(|(_, c)| **c > 1).map(|(i, _)| *i).collect();
            if !lost.is_empty() {
                out.violation(
                    "C03/rows-lost-at-quiescence",
                    &format!("after all cycles {} of {} original rows are unreachable: {:?}", lost.len(), original.len(), lost.iter().take(6).collect::<Vec<_>>()),
                    witness(json!({"final_chunks": paths})),
                );
            }
            if !dup.is_empty() {
                let sig = if res.crashes > 0 || injected > 0 { "C03/rows-duplicated-at-quiescence/after-crash-or-fault" } else { "C03/rows-duplicated-at-quiescence" };
                out.violation(
                    sig,
                    &format!("after all cycles {} row(s) are reachable more than once: {:?}", dup.len(), dup.iter().take(6).collect::<Vec<_>>()),
                    witness(json!({"final_chunks": paths})),
                );
            }
            for (p, rc) in l {
                if let Some(ids) = res.chunk_ids.get(p) {
                    if ids.len() as u64 != *rc {
                        out.violation("C03/catalog-row-count-differs", &format!("{}: catalog {} rows, object {}", p, rc, ids.len()), witness(json!(null)));
                    }
                }
            }
        }
        Err(e) => out.violation("C03/final-list-error", e, witness(json!(null))),
    }
    if !res.final_unreadable.is_empty() {
        out.violation(
            "C03/listed-chunk-unreadable",
            &format!("the final catalog lists {:?} but the object cannot be read", res.final_unreadable),
            witness(json!(null)),
        );
    }
    out.count("compaction_swaps_observed", swaps);
    if swaps > 0 {
        out.nontrivial(hash_str(&res.decisions));
    }
    if idx < 3 {
        out.sample(json!({"scenario_index": idx, "plan": plan_json, "cycles": res.cycles, "swaps": swaps, "decisions": res.decisions.chars().take(300).collect::<String>()}));
    }
}
