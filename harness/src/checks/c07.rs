//! C07 — time-range chunk lookup is exact, on both metadata backends.
//!
//! The same random history (register / re-register / delete / complete_compaction)
//! is applied to LocalMetadataClient, ObjectStoreMetadataClient (InMemory) and
//! a reference interval map; after every operation a battery of boundary-biased
//! ranges is looked up on both backends and compared with the model.

use crate::outcome::Outcome;
use crate::rng::{hash_str, Rng};
use crate::Ctx;
use cardinalsin::ingester::ChunkMetadata;
use cardinalsin::metadata::{
    LocalMetadataClient, MetadataClient, ObjectStoreMetadataClient, ObjectStoreMetadataConfig,
    TimeIndexEntry, TimeRange,
};
use serde_json::{json, Value};
use std::collections::BTreeMap;
use std::sync::Arc;

const H: i64 = 3_600_000_000_000;

#[derive(Clone, Debug, PartialEq)]
struct M {
    min: i64,
    max: i64,
    rows: u64,
    size: u64,
}

#[derive(Clone, Debug)]
enum Op {
    Register(String, i64, i64, u64, u64),
    Delete(String),
    Complete(Vec<String>, String),
    /// swap_compacted_chunk(sources, target path, min, max, rows, size): the completion call the compactor uses
    Swap(Vec<String>, String, i64, i64, u64, u64),
}

fn gen_point(rng: &mut Rng) -> i64 {
    // boundary-biased: hour multiples +-1 ns, negatives, within +-4 days of the epoch or of a base day
    let base = *rng.pick(&[0i64, 0, 24 * H * 19000, -24 * H * 3]);
    let hour = rng.range(-30, 80);
    let off = *rng.pick(&[0i64, 0, 1, -1, 2, H / 2, H - 1, 1 - H, 12345, -777]);
    base + hour * H + off
}

fn gen_interval(rng: &mut Rng) -> (i64, i64) {
    let a = gen_point(rng);
    let b = match rng.below(8) {
        0 => a,                                   // zero length
        1 => a + 1,
        2 => a + H - 1,
        3 => a + H,
        4 => a + rng.range(1, 3) * 24 * H + 5,    // multi-day
        5 => (a / H) * H + H - 1,                 // up to the end of the bucket
        _ => a + rng.range(0, 5 * H),
    };
    (a.min(b), a.max(b))
}

fn gen_range(rng: &mut Rng, chunks: &BTreeMap<String, (M, u32)>) -> (i64, i64) {
    match rng.below(10) {
        0 => {
            // inverted
            let (a, b) = gen_interval(rng);
            if a == b {
                (b + 1, a)
            } else {
                (b, a)
            }
        }
        1 | 2 | 3 if !chunks.is_empty() => {
            // around an existing chunk's end points
            let k = rng.usize(chunks.len());
            let m = &chunks.values().nth(k).unwrap().0;
            let s = *rng.pick(&[m.min, m.max, m.min - 1, m.max + 1, m.min + 1, m.max - 1]);
            let e = *rng.pick(&[m.min, m.max, m.min - 1, m.max + 1, s, s + H, s + 30 * H]);
            if rng.chance(1, 12) {
                (s.max(e), s.min(e) - if s == e { 1 } else { 0 })
            } else {
                (s.min(e), s.max(e))
            }
        }
        4 => (i64::MIN / 2, i64::MAX / 2),
        5 => {
            let p = gen_point(rng);
            (p, p)
        }
        _ => gen_interval(rng),
    }
}

fn expected(chunks: &BTreeMap<String, (M, u32)>, s: i64, e: i64) -> Vec<(String, M)> {
    chunks
        .iter()
        .filter(|(_, (m, _))| m.min.max(s) <= m.max.min(e))
        .map(|(p, (m, _))| (p.clone(), m.clone()))
        .collect()
}

fn norm(v: &[TimeIndexEntry]) -> Vec<(String, M)> {
    let mut r: Vec<(String, M)> = v
        .iter()
        .map(|e| {
            (
                e.chunk_path.clone(),
                M { min: e.min_timestamp, max: e.max_timestamp, rows: e.row_count, size: e.size_bytes },
            )
        })
        .collect();
    r.sort_by(|a, b| a.0.cmp(&b.0));
    r
}

fn ops_json(ops: &[Op]) -> Value {
    json!(ops.iter().map(|o| format!("{:?}", o)).collect::<Vec<_>>())
}

async fn guarded_get(
    c: Arc<dyn MetadataClient>,
    s: i64,
    e: i64,
) -> Result<Result<Vec<TimeIndexEntry>, String>, String> {
    let h = tokio::spawn(async move { c.get_chunks(TimeRange::new(s, e)).await.map_err(|e| e.to_string()) });
    match h.await {
        Ok(r) => Ok(r),
        Err(je) => Err(if je.is_panic() { "panic".to_string() } else { "cancelled".to_string() }),
    }
}

pub fn run(ctx: &Ctx) -> Outcome {
    let mut out = Outcome::new(
        "C07",
        "case = one lookup (get_chunks range / list_chunks / get_chunk) after a prefix of a random history applied to both \
         backends and the interval-map model; non-trivial = a lookup whose expected answer is a non-empty strict subset of the live \
         chunks, or whose range touches a chunk end point or an hour boundary exactly; distinct by hash of (history prefix, range)",
    );
    out.assume("object_store::memory::InMemory implements conditional PUT correctly");
    // (virtual time: the catalog client backs off between the attempts of a lost race; nothing here is timed)
    let rt = tokio::runtime::Builder::new_current_thread().enable_all().start_paused(true).build().unwrap();
    let histories: u64 = if ctx.thorough { 14 * 40_000 } else { 12_000 };
    rt.block_on(async {
        for idx in ctx.my_cases(histories) {
            let mut rng = ctx.rng("C07", idx);
            one_history(ctx, &mut out, &mut rng, idx).await;
        }
    });
    crate::checks::extreme::lane(ctx, &mut out, "C07");
    out
}

async fn one_history(ctx: &Ctx, out: &mut Outcome, rng: &mut Rng, idx: u64) {
    let local: Arc<dyn MetadataClient> = Arc::new(LocalMetadataClient::new());
    let store = Arc::new(object_store::memory::InMemory::new());
    // every other history: the catalog object is shared with other writers - every 2nd / 3rd / 5th conditional
    // update of this client loses its race (somebody else's write landed first) and is repeated
    let racing = rng.chance(1, 2);
    let race_store = Arc::new(crate::util::RaceLoserStore { inner: store.clone(), every: *rng.pick(&[2u64, 3, 5]), counter: 0.into(), lost: 0.into() });
    let s3_store: Arc<dyn object_store::ObjectStore> = if racing { race_store.clone() } else { store.clone() };
    let s3: Arc<dyn MetadataClient> = Arc::new(ObjectStoreMetadataClient::new(
        s3_store,
        ObjectStoreMetadataConfig::default(),
    ));
    let mut model: BTreeMap<String, (M, u32)> = BTreeMap::new();
    let paths: Vec<String> = (0..6).map(|i| format!("t/data/c{}.parquet", i)).collect();
    let nops = 4 + rng.usize(12);
    let mut ops: Vec<Op> = vec![];
    for step in 0..nops {
        // ---- generate and apply one operation
        let op = match rng.below(10) {
            0 | 1 if !model.is_empty() => {
                let k = rng.usize(model.len());
                Op::Delete(model.keys().nth(k).unwrap().clone())
            }
            2 => Op::Delete(rng.pick(&paths).clone()), // possibly absent
            5 if !model.is_empty() => {
                // the compactor's publication step: 1-3 live sources (now and then a ghost), a fresh or re-used target
                // path whose interval is independent of the sources' (a level compaction's merged chunk can span
                // hours none of its sources is indexed under)
                let mut live: Vec<String> = model.keys().cloned().collect();
                rng.shuffle(&mut live);
                let n = 1 + rng.usize(live.len().min(3));
                let mut sources: Vec<String> = live.into_iter().take(n).collect();
                if rng.chance(1, 8) {
                    sources.push("t/data/ghost.parquet".to_string());
                }
                // (never one of its own sources: a merged chunk gets a fresh path; now and then another existing path,
                //  which amounts to a re-registration)
                let reused = rng.pick(&paths).clone();
                let target = if rng.chance(1, 4) && !sources.contains(&reused) { reused } else { format!("t/data/merged{}.parquet", step) };
                let (a, b) = gen_interval(rng);
                Op::Swap(sources, target, a, b, rng.below(1000), rng.below(100_000))
            }
            3 | 4 if model.len() >= 2 => {
                // compaction completion: target registered first (normal use) or not (unknown target)
                let mut live: Vec<String> = model.keys().cloned().collect();
                rng.shuffle(&mut live);
                let target = live.pop().unwrap();
                let n = 1 + rng.usize(live.len().min(3));
                let mut sources: Vec<String> = live.into_iter().take(n).collect();
                if rng.chance(1, 6) {
                    sources.push("t/data/ghost.parquet".to_string()); // a source that is not live
                }
                if rng.chance(1, 8) {
                    // target unknown to the catalog: the completion must be refused, sources kept
                    sources.push(target);
                    Op::Complete(sources, "t/data/unknown-target.parquet".to_string())
                } else {
                    Op::Complete(sources, target)
                }
            }
            _ => {
                let p = rng.pick(&paths).clone();
                let (a, b) = gen_interval(rng);
                Op::Register(p, a, b, rng.below(1000), rng.below(100_000))
            }
        };
        ops.push(op.clone());
        let mut results: Vec<Result<(), String>> = vec![];
        for c in [&local, &s3] {
            let r = match &op {
                Op::Register(p, a, b, rows, size) => {
                    c.register_chunk(
                        p,
                        &ChunkMetadata { path: p.clone(), min_timestamp: *a, max_timestamp: *b, row_count: *rows, size_bytes: *size },
                    )
                    .await
                }
                Op::Delete(p) => c.delete_chunk(p).await,
                Op::Complete(s, t) => c.complete_compaction(s, t).await,
                Op::Swap(s, t, a, b, rows, size) => {
                    c.swap_compacted_chunk(s, &ChunkMetadata { path: t.clone(), min_timestamp: *a, max_timestamp: *b, row_count: *rows, size_bytes: *size }).await
                }
            };
            results.push(r.map_err(|e| e.to_string()));
        }
        match &op {
            Op::Register(p, a, b, rows, size) => {
                model.insert(p.clone(), (M { min: *a, max: *b, rows: *rows, size: *size }, 0));
            }
            Op::Delete(p) => {
                model.remove(p);
            }
            Op::Swap(srcs, t, a, b, rows, size) => {
                // refused (no effect) unless every source is live; a target that is also a source leaves and re-enters
                if srcs.iter().all(|p| model.contains_key(p)) {
                    let lvl = srcs.iter().filter_map(|p| model.get(p).map(|x| x.1)).max().unwrap_or(0) + 1;
                    for p in srcs {
                        model.remove(p);
                    }
                    model.insert(t.clone(), (M { min: *a, max: *b, rows: *rows, size: *size }, lvl));
                }
            }
            Op::Complete(s, t) => {
                if model.contains_key(t) {
                    let lvl = s.iter().filter_map(|p| model.get(p).map(|x| x.1)).max().unwrap_or(0) + 1;
                    for p in s {
                        if p != t {
                            model.remove(p);
                        }
                    }
                    if let Some(x) = model.get_mut(t) {
                        x.1 = lvl;
                    }
                }
            }
        }
        if results[0].is_ok() != results[1].is_ok() {
            out.violation(
                "C07/backends-disagree/op-result",
                &format!("the two backends disagree on the result of {:?}: local={:?} object-store={:?}", op, results[0], results[1]),
                json!({"history_index": idx, "seed": ctx.seed, "ops": ops_json(&ops)}),
            );
        }

        // ---- battery of lookups
        let nlook = 24;
        for q in 0..nlook {
            let (s, e) = gen_range(rng, &model);
            let exp = expected(&model, s, e);
            out.eval();
            let touches = model.values().any(|(m, _)| s == m.max || e == m.min || s == m.min || e == m.max)
                || s % H == 0
                || e % H == 0
                || (s + 1) % H == 0
                || (e + 1) % H == 0;
            if (!exp.is_empty() && exp.len() < model.len()) || (touches && !model.is_empty()) {
                out.nontrivial(hash_str(&format!("{}|{}|{}|{}|{}", idx, step, q, s, e)));
            }
            if s > e {
                out.count("lookups.inverted", 1);
            }
            let mut answers: Vec<Option<Vec<(String, M)>>> = vec![];
            for (name, c) in [("local", &local), ("object-store", &s3)] {
                match guarded_get(c.clone(), s, e).await {
                    Ok(Ok(v)) => {
                        let got = norm(&v);
                        if v.len() != got.iter().map(|x| &x.0).collect::<std::collections::BTreeSet<_>>().len() {
                            out.violation(
                                &format!("C07/{}/duplicate-entry", name),
                                "a chunk was returned more than once",
                                json!({"history_index": idx, "seed": ctx.seed, "ops": ops_json(&ops), "range": [s, e]}),
                            );
                        }
                        if got != exp {
                            let sig = if s > e {
                                format!("C07/{}/inverted-range-nonempty", name)
                            } else if got.len() > exp.len() {
                                format!("C07/{}/extra-chunk", name)
                            } else if got.len() < exp.len() {
                                format!("C07/{}/missing-chunk", name)
                            } else {
                                format!("C07/{}/wrong-entry", name)
                            };
                            out.violation(
                                &sig,
                                &format!("{} get_chunks([{}, {}]) != reference", name, s, e),
                                json!({"history_index": idx, "seed": ctx.seed, "ops": ops_json(&ops), "range": [s, e],
                                    "got": format!("{:?}", got), "expected": format!("{:?}", exp)}),
                            );
                        }
                        answers.push(Some(got));
                    }
                    Ok(Err(e2)) => {
                        out.violation(
                            &format!("C07/{}/lookup-error", name),
                            &format!("{} get_chunks([{}, {}]) returned an error: {}", name, s, e, e2),
                            json!({"history_index": idx, "seed": ctx.seed, "ops": ops_json(&ops), "range": [s, e]}),
                        );
                        answers.push(None);
                    }
                    Err(_) => {
                        let sig = if s > e {
                            format!("C07/{}/inverted-range-panic", name)
                        } else {
                            format!("C07/{}/panic", name)
                        };
                        out.violation(
                            &sig,
                            &format!("{} get_chunks([{}, {}]) panicked", name, s, e),
                            json!({"history_index": idx, "seed": ctx.seed, "ops": ops_json(&ops), "range": [s, e]}),
                        );
                        answers.push(None);
                    }
                }
            }
            if idx < 2 && step == nops - 1 && q < 2 {
                out.sample(json!({"history_index": idx, "ops": ops_json(&ops), "range": [s, e],
                    "expected_paths": exp.iter().map(|x| x.0.clone()).collect::<Vec<_>>()}));
            }
        }
        // list_chunks / get_chunk on both
        for (name, c) in [("local", &local), ("object-store", &s3)] {
            out.eval();
            match c.list_chunks().await {
                Ok(v) => {
                    let got = norm(&v);
                    let exp: Vec<(String, M)> = model.iter().map(|(p, (m, _))| (p.clone(), m.clone())).collect();
                    if got != exp {
                        out.violation(
                            &format!("C07/{}/list-mismatch", name),
                            "list_chunks != reference",
                            json!({"history_index": idx, "seed": ctx.seed, "ops": ops_json(&ops), "got": format!("{:?}", got), "expected": format!("{:?}", exp)}),
                        );
                    }
                }
                Err(e) => out.violation(&format!("C07/{}/list-error", name), &e.to_string(), json!({"history_index": idx})),
            }
            let p = rng.pick(&paths).clone();
            match c.get_chunk(&p).await {
                Ok(g) => {
                    let exp = model.get(&p).map(|x| x.0.clone());
                    let got = g.map(|m| M { min: m.min_timestamp, max: m.max_timestamp, rows: m.row_count, size: m.size_bytes });
                    if got != exp {
                        out.violation(
                            &format!("C07/{}/get_chunk-mismatch", name),
                            "get_chunk != reference",
                            json!({"history_index": idx, "seed": ctx.seed, "ops": ops_json(&ops), "path": p}),
                        );
                    }
                }
                Err(e) => out.violation(&format!("C07/{}/get_chunk-error", name), &e.to_string(), json!({"history_index": idx})),
            }
        }
    }
    if racing {
        out.count("histories_with_lost_catalog_races", 1);
        out.count("catalog_updates_that_lost_their_race_and_were_repeated", race_store.lost.load(std::sync::atomic::Ordering::SeqCst));
    }
    // a fresh object-store client must see the same persisted state
    let fresh = ObjectStoreMetadataClient::new(store, ObjectStoreMetadataConfig::default());
    out.eval();
    match fresh.get_chunks(TimeRange::new(i64::MIN / 2, i64::MAX / 2)).await {
        Ok(v) => {
            let got = norm(&v);
            let exp: Vec<(String, M)> = model.iter().map(|(p, (m, _))| (p.clone(), m.clone())).collect();
            if got != exp {
                out.violation(
                    "C07/object-store/fresh-client-mismatch",
                    "a fresh client does not see the reference state",
                    json!({"history_index": idx, "seed": ctx.seed, "ops": ops_json(&ops), "got": format!("{:?}", got), "expected": format!("{:?}", exp)}),
                );
            }
        }
        Err(e) => out.violation("C07/object-store/fresh-client-error", &e.to_string(), json!({"history_index": idx})),
    }
    out.count("histories", 1);
    out.count("operations", ops.len() as u64);
}
