//! C17 — ingest protocol conversion is faithful, and no payload can crash the receiver.
//!
//! Worker processes run the cases, the parent watches a per-case progress file:
//! a worker that dies, or computes for more than 20 s of user-mode CPU time inside one
//! request body without finishing it, is the recorded outcome (the hang / crash IS the
//! property here).
//! Lanes: (1) well-formed Prometheus remote-write through the real HTTP router
//! -> real ingester -> flushed chunk, rows compared with the samples;
//! (2) well-formed OTLP exports through OtlpGrpcService::export -> chunk;
//! (3) Arrow Flight frames through FlightIngestService::process_stream;
//! (4) hostile bodies for all three: mutated valid encodings (lengths / varints
//! replaced by 0, 1, 2^31, 2^32-1, 2^63, 2^64-1, truncation at every prefix of
//! small messages, bit flips, concatenation, random bytes).

use crate::outcome::Outcome;
use crate::rng::{hash_bytes, Rng};
use crate::rows;
use crate::util;
use crate::Ctx;
use arrow_array::cast::AsArray;
use arrow_array::{Array, RecordBatch};
use axum::body::Body;
use cardinalsin::api::grpc::OtlpGrpcService;
use cardinalsin::api::ingest::flight_ingest::{batch_to_flight_data, FlightIngestService};
use cardinalsin::ingester::Ingester;
use cardinalsin::metadata::{LocalMetadataClient, MetadataClient};
use cardinalsin::query::QueryNode;
use cardinalsin::schema::MetricSchema;
use futures::FutureExt;
use object_store::memory::InMemory;
use opentelemetry_proto::tonic::collector::metrics::v1::metrics_service_server::MetricsService;
use opentelemetry_proto::tonic::collector::metrics::v1::ExportMetricsServiceRequest;
use opentelemetry_proto::tonic::common::v1::{any_value, AnyValue, KeyValue};
use opentelemetry_proto::tonic::metrics::v1::{
    metric::Data, number_data_point, Gauge, Histogram, HistogramDataPoint, Metric, NumberDataPoint, ResourceMetrics, ScopeMetrics, Sum, Summary,
    SummaryDataPoint,
};
use opentelemetry_proto::tonic::resource::v1::Resource;
use prost::Message;
use serde_json::{json, Value};
use std::collections::{BTreeMap, BTreeSet};
use std::io::Write;
use std::sync::Arc;
use tower::ServiceExt;

/// User-mode CPU seconds one request body may cost the receiver before it is called a hang.
const HANG_USER_CPU_S: u64 = 20;

const RESERVED: [&str; 5] = ["timestamp", "metric_name", "value_f64", "value_i64", "value_u64"];

// ---------------------------------------------------------------- parent

pub fn run(ctx: &Ctx) -> Outcome {
    let mut out = Outcome::new(
        "C17",
        "case = one request (well-formed: remote-write / OTLP export / Flight stream, compared row by row with the stored chunk; hostile: one \
         mutated or random body, watched for panic, hang (> 20 s of the receiver's user-mode CPU time inside one body), and acceptance of a truncated encoding); non-trivial = a well-formed request with \
         >= 2 series/points and >= 2 distinct label sets, or a hostile body that got past the first decoding stage (snappy / outer message), \
         distinct by hash of the body",
    );
    out.assume("timestamps representable in nanoseconds (|ms| < 9.2e12); label names do not collide with the reserved column names except in the dedicated sub-case");
    let cases: u64 = if ctx.thorough { 14 * 300_000 } else { 120_000 };
    let my = ctx.my_cases(cases);
    let exe = std::env::current_exe().expect("exe");
    let dir = util::scratch_dir("c17");
    let mut from = my.start;
    let mut deaths = 0;
    let mut hangs = 0;
    while from < my.end {
        let outp = format!("{}/w{}.jsonl", dir, from);
        let mut child = match std::process::Command::new(&exe)
            .arg("C17-worker")
            .arg("--seed")
            .arg(ctx.seed.to_string())
            .arg("--shard")
            .arg(format!("{}/{}", from, my.end))
            .arg("--out")
            .arg(&outp)
            .stdout(std::process::Stdio::null())
            .stderr(std::process::Stdio::null())
            .spawn()
        {
            Ok(c) => c,
            Err(e) => {
                out.inconclusive(&format!("cannot spawn worker: {e}"));
                break;
            }
        };
        // Hang monitor. The verdict is taken on the worker's own USER-MODE CPU time, neither on the wall
        // clock nor on its kernel time: a body that keeps the receiver computing for more than
        // HANG_USER_CPU_S seconds of user CPU (the heaviest request the generators produce costs about
        // 1 s, the typical one < 1 ms) without the progress file growing is a hang - a loop that does not
        // end burns user time without bound, so any finite budget finds it. Kernel time is left out of the
        // verdict because it measures the machine, not the request: the parallel workers contend inside
        // the kernel when several of them fault in fresh memory at once (measured on case 30357 of seed 1:
        // 0.2 s of system time when its shard runs alone, 12.4 s next to seven other shards, user time
        // 0.3 - 0.55 s in both). A stall without user CPU consumption (loaded or paused machine,
        // snapshotting VM, kernel contention) is no verdict; only after 5 minutes of it without any CPU use,
        // or 30 minutes with kernel time only, the worker is restarted and the run is marked inconclusive.
        let ticks_per_s = (unsafe { libc::sysconf(libc::_SC_CLK_TCK) }).max(1) as u64;
        let budget_s = if std::env::var("CSVERIF_UNDER_VALGRIND").is_ok() { HANG_USER_CPU_S * 50 } else { HANG_USER_CPU_S };
        // (utime, stime) of the whole worker process, all threads, in clock ticks
        let cpu_ticks = |pid: u32| -> (u64, u64) {
            std::fs::read_to_string(format!("/proc/{}/stat", pid))
                .ok()
                .and_then(|t| {
                    let rest = t.rsplit(')').next()?.to_string();
                    let f: Vec<&str> = rest.split_whitespace().collect();
                    // after the command name: state is f[0]; utime and stime are fields 14 and 15 of the line
                    Some((f.get(11)?.parse::<u64>().ok()?, f.get(12)?.parse::<u64>().ok()?))
                })
                .unwrap_or((0, 0))
        };
        let pid = child.id();
        let mut last_len = 0u64;
        let mut last_change = crate::clock::real_mono_ns();
        let mut cpu_at_change = cpu_ticks(pid);
        let mut hung = false;
        let mut starved = false;
        let mut stall_cpu = (0u64, 0u64);
        let status = loop {
            match child.try_wait() {
                Ok(Some(st)) => break Some(st),
                Ok(None) => {}
                Err(_) => break None,
            }
            std::thread::sleep(std::time::Duration::from_millis(100));
            let len = std::fs::metadata(&outp).map(|m| m.len()).unwrap_or(0);
            if len != last_len {
                last_len = len;
                last_change = crate::clock::real_mono_ns();
                cpu_at_change = cpu_ticks(pid);
            } else {
                let now = cpu_ticks(pid);
                let user_ticks = now.0.saturating_sub(cpu_at_change.0);
                let sys_ticks = now.1.saturating_sub(cpu_at_change.1);
                out.max("max:stall.user_cpu_ms_without_progress", user_ticks * 1000 / ticks_per_s);
                out.max("max:stall.system_cpu_ms_without_progress", sys_ticks * 1000 / ticks_per_s);
                if user_ticks > budget_s * ticks_per_s {
                    let _ = child.kill();
                    let _ = child.wait();
                    hung = true;
                    stall_cpu = (user_ticks * 1000 / ticks_per_s, sys_ticks * 1000 / ticks_per_s);
                    break None;
                }
                // no verdict: 5 minutes without progress and (almost) without CPU use, or half an hour
                // without progress spent in the kernel
                let wall_s = (crate::clock::real_mono_ns() - last_change) / 1_000_000_000;
                let idle = user_ticks + sys_ticks < 3 * ticks_per_s;
                if (wall_s > 300 && idle) || wall_s > 1800 {
                    let _ = child.kill();
                    let _ = child.wait();
                    starved = true;
                    break None;
                }
            }
        };
        if starved {
            out.inconclusive("a C17 worker made no progress for 5 minutes without consuming CPU, or for 30 minutes while busy in the kernel only (machine stalled?)");
        }
        let text = std::fs::read_to_string(&outp).unwrap_or_default();
        let mut last_begin: Option<Value> = None;
        let mut done_upto = from;
        for line in text.lines() {
            let Ok(v) = serde_json::from_str::<Value>(line) else { continue };
            match v["t"].as_str() {
                Some("begin") => last_begin = Some(v),
                Some("done") => {
                    done_upto = v["i"].as_u64().unwrap_or(0) + 1;
                    last_begin = None;
                    out.eval();
                    out.count(&format!("cases.{}", v["kind"].as_str().unwrap_or("?")), 1);
                    if let Some(k) = v["outcome"].as_str() {
                        out.count(&format!("outcome.{}", k), 1);
                    }
                    if v["nontrivial"].as_bool().unwrap_or(false) {
                        out.nontrivial(v["hash"].as_u64().unwrap_or(0));
                    }
                    out.count("rows_compared", v["rows"].as_u64().unwrap_or(0));
                    // what the case cost the receiving process (getrusage around the case, in the worker)
                    let (ut, st) = (v["utime_us"].as_u64().unwrap_or(0), v["stime_us"].as_u64().unwrap_or(0));
                    out.max("max:case.user_cpu_ms", ut / 1000);
                    out.max("max:case.system_cpu_ms", st / 1000);
                    if ut > 1_000_000 {
                        out.count("cases.over_1s_user_cpu", 1);
                    }
                    if ut + st > 10_000_000 {
                        out.count("cases.over_10s_user_plus_system_cpu", 1);
                    }
                    for viol in v["violations"].as_array().cloned().unwrap_or_default() {
                        out.violation(viol["sig"].as_str().unwrap_or("C17/unknown"), viol["what"].as_str().unwrap_or(""), viol["witness"].clone());
                    }
                    if let Some(s) = v.get("sample") {
                        if !s.is_null() {
                            out.sample(s.clone());
                        }
                    }
                }
                _ => {}
            }
        }
        if status.map(|s| s.success()).unwrap_or(false) {
            break;
        }
        deaths += 1;
        if starved {
            from = last_begin.as_ref().and_then(|v| v["i"].as_u64()).unwrap_or(done_upto) + 1;
            continue;
        }
        match last_begin {
            Some(v) => {
                let i = v["i"].as_u64().unwrap_or(done_upto);
                let (sig, what) = if hung {
                    hangs += 1;
                    (
                        format!("C17/hang/{}", v["kind"].as_str().unwrap_or("?")),
                        format!(
                            "one request body kept the receiver computing for more than {} s of user-mode CPU time without finishing (case {}; {} ms user, {} ms system when it was stopped)",
                            budget_s, i, stall_cpu.0, stall_cpu.1
                        ),
                    )
                } else {
                    (format!("C17/process-died/{}", v["kind"].as_str().unwrap_or("?")), format!("the receiving process died ({:?}) while handling one request body (case {})", status, i))
                };
                out.violation(&sig, &what, json!({"case_index": i, "seed": ctx.seed, "kind": v["kind"], "mutation": v["mutation"], "body_hex": v["body_hex"], "body_len": v["len"]}));
                from = i + 1;
            }
            None => {
                out.inconclusive(&format!("C17 worker died outside a case ({:?}, hung={})", status, hung));
                from = done_upto + 1;
            }
        }
        if hangs >= 5 {
            // each hang costs its whole budget; five witnesses decide the run, the rest of this shard is not run
            out.note("a shard stopped early after 5 hang verdicts (the run is violated; its remaining cases were not run)");
            break;
        }
        if deaths > 300 {
            out.inconclusive("more than 300 worker deaths");
            break;
        }
    }
    util::remove_dir(&dir);
    out
}

// ---------------------------------------------------------------- encoders

fn put_varint(buf: &mut Vec<u8>, mut v: u64) {
    loop {
        let b = (v & 0x7f) as u8;
        v >>= 7;
        if v == 0 {
            buf.push(b);
            return;
        }
        buf.push(b | 0x80);
    }
}
fn put_len_field(buf: &mut Vec<u8>, field: u32, payload: &[u8]) {
    put_varint(buf, ((field as u64) << 3) | 2);
    put_varint(buf, payload.len() as u64);
    buf.extend_from_slice(payload);
}

#[derive(Clone, Debug)]
struct PSeries {
    labels: Vec<(String, String)>, // includes __name__
    samples: Vec<(i64, f64)>,
}

/// Encode, remembering the offset of every length varint (for the mutator).
fn encode_prom(series: &[PSeries], unknown_fields: bool, len_offsets: &mut Vec<usize>) -> Vec<u8> {
    let mut out = vec![];
    for s in series {
        let mut ts = vec![];
        for (n, v) in &s.labels {
            let mut l = vec![];
            put_len_field(&mut l, 1, n.as_bytes());
            put_len_field(&mut l, 2, v.as_bytes());
            put_len_field(&mut ts, 1, &l);
        }
        for (t, v) in &s.samples {
            let mut sm = vec![];
            sm.push((1 << 3) | 1);
            sm.extend_from_slice(&v.to_le_bytes());
            sm.push((2 << 3) | 0);
            put_varint(&mut sm, *t as u64);
            put_len_field(&mut ts, 2, &sm);
        }
        if unknown_fields {
            put_len_field(&mut ts, 9, b"exemplar-ish unknown field");
            ts.push((10 << 3) | 0);
            put_varint(&mut ts, 12345);
        }
        put_varint(&mut out, (1 << 3) | 2);
        len_offsets.push(out.len());
        put_varint(&mut out, ts.len() as u64);
        out.extend_from_slice(&ts);
    }
    if unknown_fields {
        put_varint(&mut out, (3 << 3) | 2);
        len_offsets.push(out.len());
        put_varint(&mut out, 5);
        out.extend_from_slice(b"meta!");
    }
    out
}

fn gen_value(rng: &mut Rng) -> f64 {
    match rng.below(22) {
        0 => 0.0,
        1 => -0.0,
        2 => 1.0,
        3 => -1.0,
        4 => 0.5,
        5 => -123.456,
        6 => 9007199254740992.0,  // 2^53
        7 => 9007199254740993.0,  // rounds to 2^53 (+1 not representable) - still an exact double
        8 => 9007199254740994.0,  // 2^53 + 2
        9 => 9223372036854775808.0,  // 2^63
        10 => -9223372036854775808.0, // -2^63
        11 => 18446744073709551616.0, // 2^64
        12 => 1e300,
        13 => -1e300,
        14 => f64::INFINITY,
        15 => f64::NEG_INFINITY,
        16 => f64::NAN,
        17 => f64::MIN_POSITIVE / 8.0,
        18 => 4611686018427387904.0, // 2^62
        _ => (rng.range(-1_000_000, 1_000_000) as f64) / *rng.pick(&[1.0, 1.0, 4.0, 1000.0]),
    }
}

fn gen_prom(rng: &mut Rng, collide: bool) -> Vec<PSeries> {
    // "any number of series and samples": mostly a handful, now and then none at all or a few hundred
    let nseries = match rng.below(40) {
        0 => 0,
        1 => 150 + rng.usize(250),
        _ => 1 + rng.usize(5),
    };
    // one request's samples lie within two hours of a base instant (a request spanning decades makes the
    // hour-bucket index of its chunk explode; noted in DESIGN.md, not what C17 is about)
    let base_ms: i64 = *rng.pick(&[0i64, -3_600_000, 1_700_000_000_000, 1_700_000_000_000, 3_999_999_000_000, -1_999_999_000_000]);
    // (names starting with an upper-case letter sort before "__name__" in a sender that sorts its labels)
    let label_pool = ["host", "region", "job", "instance", "le", "env", "quantile", "a_very_long_label_name_x", "Cluster", "AZ", "Host"];
    (0..nseries)
        .map(|si| {
            let mut labels = vec![("__name__".to_string(), format!("metric_{}", rng.below(3)))];
            let k = rng.usize(4);
            let mut used = BTreeSet::new();
            for _ in 0..k {
                let n = label_pool[rng.usize(label_pool.len())];
                if used.insert(n) {
                    labels.push((n.to_string(), ["", "a", "b", "srv-1", "ü", "x y"][rng.usize(6)].to_string()));
                }
            }
            if collide && si == 0 {
                labels.push((RESERVED[rng.usize(RESERVED.len())].to_string(), "collides".into()));
            }
            if rng.chance(1, 12) {
                labels.remove(0); // series without a metric name
            }
            // label order as senders produce it: name first, sorted by label name (the remote-write
            // convention), or unsorted
            match rng.below(4) {
                0 => labels.sort(),
                1 => rng.shuffle(&mut labels),
                _ => {}
            }
            let ns = if rng.chance(1, 60) { 40 + rng.usize(80) } else { rng.usize(4) };
            let samples = (0..ns).map(|_| (base_ms + rng.range(-3_600_000, 3_600_000), gen_value(rng))).collect();
            PSeries { labels, samples }
        })
        .collect()
}

// ---------------------------------------------------------------- fidelity oracle

/// Is the row's stored value numerically equal to `v`? (exactly one of the typed columns must be set)
fn value_matches(b: &RecordBatch, r: usize, v: f64) -> Result<(), String> {
    use arrow_array::types::*;
    let f = b.column_by_name("value_f64").and_then(|c| c.as_primitive_opt::<Float64Type>().map(|a| if a.is_null(r) { None } else { Some(a.value(r)) })).flatten();
    let i = b.column_by_name("value_i64").and_then(|c| c.as_primitive_opt::<Int64Type>().map(|a| if a.is_null(r) { None } else { Some(a.value(r)) })).flatten();
    let u = b.column_by_name("value_u64").and_then(|c| c.as_primitive_opt::<UInt64Type>().map(|a| if a.is_null(r) { None } else { Some(a.value(r)) })).flatten();
    let set = f.is_some() as u8 + i.is_some() as u8 + u.is_some() as u8;
    if set != 1 {
        return Err(format!("{} of the typed value columns are set (f64={:?} i64={:?} u64={:?})", set, f, i, u));
    }
    let int_eq = |x: i128| -> bool { v.is_finite() && v.fract() == 0.0 && v.abs() < 1.7e38 && (v as i128) == x };
    if let Some(x) = f {
        if (x.is_nan() && v.is_nan()) || x == v {
            return Ok(());
        }
        return Err(format!("value_f64={:e} for sample value {:e}", x, v));
    }
    if let Some(x) = i {
        return if int_eq(x as i128) { Ok(()) } else { Err(format!("value_i64={} for sample value {:e}", x, v)) };
    }
    let x = u.unwrap();
    if int_eq(x as i128) {
        Ok(())
    } else {
        Err(format!("value_u64={} for sample value {:e}", x, v))
    }
}

/// Is the row's stored value numerically equal to the integer `iv`?
fn int_value_matches(b: &RecordBatch, r: usize, iv: i64) -> Result<(), String> {
    use arrow_array::types::*;
    let f = b.column_by_name("value_f64").and_then(|c| c.as_primitive_opt::<Float64Type>().map(|a| if a.is_null(r) { None } else { Some(a.value(r)) })).flatten();
    let i = b.column_by_name("value_i64").and_then(|c| c.as_primitive_opt::<Int64Type>().map(|a| if a.is_null(r) { None } else { Some(a.value(r)) })).flatten();
    let u = b.column_by_name("value_u64").and_then(|c| c.as_primitive_opt::<UInt64Type>().map(|a| if a.is_null(r) { None } else { Some(a.value(r)) })).flatten();
    let big = if (iv as i128).abs() > (1i128 << 53) { " int>2^53" } else { "" };
    if let Some(x) = i {
        return if x == iv { Ok(()) } else { Err(format!("value_i64={} for integer point {}{}", x, iv, big)) };
    }
    if let Some(x) = u {
        return if x as i128 == iv as i128 { Ok(()) } else { Err(format!("value_u64={} for integer point {}{}", x, iv, big)) };
    }
    match f {
        Some(x) if x.is_finite() && x.fract() == 0.0 && x.abs() < 1.7e38 && (x as i128) == iv as i128 => Ok(()),
        Some(x) => Err(format!("value_f64={:e} for integer point {}{}", x, iv, big)),
        None => Err("no typed value column is set".into()),
    }
}

fn row_labels(b: &RecordBatch, r: usize) -> BTreeMap<String, String> {
    let mut m = BTreeMap::new();
    let schema = b.schema();
    for (ci, f) in schema.fields().iter().enumerate() {
        if RESERVED.contains(&f.name().as_str()) {
            continue;
        }
        let c = b.column(ci);
        if c.is_null(r) {
            continue;
        }
        let s = rows::cell_string(c.as_ref(), r);
        m.insert(f.name().clone(), s.trim_start_matches("s:").to_string());
    }
    m
}

struct Expected {
    ts_ns: i64,
    name: String,
    labels: BTreeMap<String, String>,
    value: f64,
    /// the data point carried an integer: the stored value must equal this integer exactly
    exact_int: Option<i64>,
    check_value: bool,
}

fn compare(batches: &[RecordBatch], expected: &[Expected]) -> Vec<(String, String)> {
    let mut v = vec![];
    let total: usize = batches.iter().map(|b| b.num_rows()).sum();
    if total != expected.len() {
        v.push(("row-count".into(), format!("{} rows stored for {} samples / data points", total, expected.len())));
    }
    let mut used: Vec<(usize, usize)> = vec![];
    for e in expected {
        let mut found = false;
        let mut near: Option<String> = None;
        'outer: for (bi, b) in batches.iter().enumerate() {
            let ts = rows::timestamps_of(b);
            let names = b.column_by_name("metric_name");
            for r in 0..b.num_rows() {
                if used.contains(&(bi, r)) || ts.get(r) != Some(&e.ts_ns) {
                    continue;
                }
                let n = names.map(|c| rows::cell_string(c.as_ref(), r)).unwrap_or_default();
                if n.trim_start_matches("s:") != e.name {
                    continue;
                }
                if row_labels(b, r) != e.labels {
                    near = Some(format!("row with labels {:?}", row_labels(b, r)));
                    continue;
                }
                if e.check_value {
                    if let Some(iv) = e.exact_int {
                        if let Err(why) = int_value_matches(b, r, iv) {
                            near = Some(why);
                            continue;
                        }
                    } else if let Err(why) = value_matches(b, r, e.value) {
                        near = Some(why);
                        continue;
                    }
                }
                used.push((bi, r));
                found = true;
                break 'outer;
            }
        }
        if !found {
            let class = if near.as_deref().map(|n| n.starts_with("value_") || n.contains("typed value")).unwrap_or(false) { "value" } else if near.is_some() { "labels" } else { "row-missing" };
            v.push((class.into(), format!("no stored row for ts={} name={:?} labels={:?} value={:e} ({})", e.ts_ns, e.name, e.labels, e.value, near.unwrap_or_else(|| "no row with that timestamp and name".into()))));
        }
    }
    v
}

// ---------------------------------------------------------------- worker

struct Env {
    ingester: Arc<Ingester>,
    meta: Arc<LocalMetadataClient>,
    store: Arc<InMemory>,
    router: axum::Router,
    otlp: OtlpGrpcService,
    flight: FlightIngestService,
    seen: BTreeSet<String>,
}

async fn new_env() -> Env {
    let store = Arc::new(InMemory::new());
    let meta = Arc::new(LocalMetadataClient::new());
    let ingester = Arc::new(Ingester::new(
        crate::checks::c03::no_wal_ingester_config(),
        store.clone(),
        meta.clone(),
        crate::checks::c01::storage_config(),
        MetricSchema::default_metrics(),
    ));
    let qn = Arc::new(QueryNode::new(crate::checks::c09::query_config(), store.clone(), meta.clone(), crate::checks::c01::storage_config()).await.expect("query node"));
    let router = cardinalsin::api::build_http_router(ingester.clone(), qn);
    Env { otlp: OtlpGrpcService::new(ingester.clone()), flight: FlightIngestService::new(ingester.clone()), ingester, meta, store, router, seen: BTreeSet::new() }
}

impl Env {
    async fn new_chunks(&mut self) -> Vec<RecordBatch> {
        let mut out = vec![];
        if let Ok(l) = self.meta.list_chunks().await {
            for c in l {
                if self.seen.insert(c.chunk_path.clone()) {
                    if let Ok(b) = rows::read_chunk(self.store.as_ref(), &c.chunk_path).await {
                        out.extend(b);
                    }
                }
            }
        }
        out
    }
    async fn post_write(&self, body: Vec<u8>) -> Result<u16, String> {
        let req = axum::http::Request::builder().method("POST").uri("/api/v1/write").header("content-encoding", "snappy").body(Body::from(body)).unwrap();
        match std::panic::AssertUnwindSafe(self.router.clone().oneshot(req)).catch_unwind().await {
            Ok(Ok(resp)) => Ok(resp.status().as_u16()),
            Ok(Err(e)) => Err(format!("service error {e}")),
            Err(_) => Err("panic".into()),
        }
    }
}

fn hexs(b: &[u8]) -> String {
    b.iter().take(300).map(|x| format!("{:02x}", x)).collect()
}

pub fn worker(seed: u64, from: u64, to: u64, out_path: &str) {
    let mut f = std::fs::OpenOptions::new().create(true).append(true).open(out_path).expect("worker out");
    let rt = tokio::runtime::Builder::new_current_thread().enable_all().build().unwrap();
    rt.block_on(async {
        let mut env = new_env().await;
        for i in from..to {
            if (i - from) % 400 == 399 {
                env = new_env().await; // keep the catalog small
            }
            let mut rng = Rng::derive(seed, "C17", 0, i);
            let (u0, s0) = self_cpu_us();
            let line = one_case(&mut env, &mut rng, i, seed, &mut f).await;
            let (u1, s1) = self_cpu_us();
            // the case's own cost, as the kernel accounts it to this process (all threads)
            let line = format!("{},\"utime_us\":{},\"stime_us\":{}}}", line.strip_suffix('}').unwrap_or(&line), u1.saturating_sub(u0), s1.saturating_sub(s0));
            writeln!(f, "{}", line).ok();
            f.flush().ok();
        }
    });
}

/// (user, system) CPU time of this process so far, in microseconds.
fn self_cpu_us() -> (u64, u64) {
    let mut ru: libc::rusage = unsafe { std::mem::zeroed() };
    unsafe { libc::getrusage(libc::RUSAGE_SELF, &mut ru) };
    let us = |t: libc::timeval| t.tv_sec as u64 * 1_000_000 + t.tv_usec as u64;
    (us(ru.ru_utime), us(ru.ru_stime))
}

const EVIL_VARINTS: [u64; 8] = [0, 1, 127, 1 << 31, (1 << 32) - 1, 1 << 63, u64::MAX, u64::MAX - 7];

fn mutate(rng: &mut Rng, valid: &[u8], len_offsets: &[usize]) -> (Vec<u8>, String) {
    let mut b = valid.to_vec();
    match rng.below(8) {
        0 if !len_offsets.is_empty() => {
            // replace a length varint
            let off = len_offsets[rng.usize(len_offsets.len())];
            let mut end = off;
            while end < b.len() && b[end] & 0x80 != 0 {
                end += 1;
            }
            end = (end + 1).min(b.len());
            let evil = EVIL_VARINTS[rng.usize(EVIL_VARINTS.len())];
            let mut v = vec![];
            put_varint(&mut v, evil);
            b.splice(off..end, v);
            (b, format!("length varint at {} := {}", off, evil))
        }
        1 if !b.is_empty() => {
            let cut = rng.usize(b.len());
            b.truncate(cut);
            (b, format!("truncated to {} bytes", cut))
        }
        2 if !b.is_empty() => {
            let n = 1 + rng.usize(4);
            for _ in 0..n {
                let p = rng.usize(b.len());
                b[p] ^= 1 << rng.below(8);
            }
            (b, format!("{} bit flips", n))
        }
        3 => {
            let mut c = b.clone();
            c.extend_from_slice(valid);
            (c, "concatenated with itself".into())
        }
        4 => {
            // an unknown length-delimited field with an evil length, at a random position boundary (front)
            let mut v = vec![];
            put_varint(&mut v, ((7 + rng.below(20)) << 3) | 2);
            put_varint(&mut v, EVIL_VARINTS[rng.usize(EVIL_VARINTS.len())]);
            v.extend_from_slice(&b);
            (v, "unknown field with hostile length in front".into())
        }
        5 => {
            let n = rng.usize(64);
            ((0..n).map(|_| rng.below(256) as u8).collect(), "random bytes".into())
        }
        6 if !b.is_empty() => {
            // overwrite a random position with an evil varint
            let p = rng.usize(b.len());
            let mut v = vec![];
            put_varint(&mut v, EVIL_VARINTS[rng.usize(EVIL_VARINTS.len())]);
            let e = (p + v.len()).min(b.len());
            b.splice(p..e, v);
            (b, format!("hostile varint written at {}", p))
        }
        _ => {
            b.extend_from_slice(&[0x0a, 0xff, 0xff, 0xff, 0xff, 0xff, 0xff, 0xff, 0xff, 0xff, 0x01]);
            (b, "trailing field with length 2^64-1".into())
        }
    }
}

async fn one_case(env: &mut Env, rng: &mut Rng, i: u64, seed: u64, f: &mut std::fs::File) -> String {
    let kind = match i % 10 {
        0 | 1 | 2 => "prom-wellformed",
        3 => "otlp-wellformed",
        4 => "flight-wellformed",
        5 | 6 | 7 => "prom-hostile",
        8 => "otlp-hostile",
        _ => "flight-hostile",
    };
    let mut violations: Vec<Value> = vec![];
    let mut outcome = String::new();
    let mut nontrivial = false;
    let mut rows_cmp = 0u64;
    let mut sample = Value::Null;
    let mut body_for_hash: Vec<u8> = vec![];
    let begin = |f: &mut std::fs::File, body: &[u8], mutation: &str| {
        writeln!(f, "{}", json!({"t": "begin", "i": i, "kind": kind, "len": body.len(), "mutation": mutation, "body_hex": hexs(body)})).ok();
        f.flush().ok();
    };
    match kind {
        "prom-wellformed" => {
            let collide = rng.chance(1, 40);
            let series = gen_prom(rng, collide);
            let unknown = rng.chance(1, 5);
            let mut offs = vec![];
            let proto = encode_prom(&series, unknown, &mut offs);
            let body = snap::raw::Encoder::new().compress_vec(&proto).unwrap_or_default();
            body_for_hash = body.clone();
            begin(f, &body, "none");
            let total_samples: usize = series.iter().map(|s| s.samples.len()).sum();
            match env.post_write(body.clone()).await {
                Err(e) => {
                    violations.push(json!({"sig": format!("C17/panic/{}", kind), "what": format!("well-formed remote-write request: {}", e), "witness": {"case_index": i, "seed": seed, "series": format!("{:?}", series)}}));
                    outcome = "panic".into();
                }
                Ok(status) => {
                    outcome = format!("http{}", status);
                    let stored = env.new_chunks().await;
                    if total_samples == 0 {
                        // nothing to store: any non-2xx or an empty write is fine
                    } else if status / 100 != 2 {
                        let sig = if collide { "C17/prom/reserved-label-name-rejected" } else { "C17/prom/wellformed-request-rejected" };
                        violations.push(json!({"sig": sig, "what": format!("a well-formed remote-write request with {} samples was answered with HTTP {}", total_samples, status),
                            "witness": {"case_index": i, "seed": seed, "series": format!("{:?}", series), "unknown_fields": unknown}}));
                    } else {
                        let expected: Vec<Expected> = series
                            .iter()
                            .flat_map(|s| {
                                let name = s.labels.iter().find(|l| l.0 == "__name__").map(|l| l.1.clone()).unwrap_or_default();
                                let labels: BTreeMap<String, String> = s.labels.iter().filter(|l| l.0 != "__name__").cloned().collect();
                                s.samples.iter().map(move |(t, v)| Expected { ts_ns: t * 1_000_000, name: name.clone(), labels: labels.clone(), value: *v, exact_int: None, check_value: true }).collect::<Vec<_>>()
                            })
                            .collect();
                        rows_cmp = expected.len() as u64;
                        for (class, why) in compare(&stored, &expected) {
                            let sig = if collide {
                                format!("C17/prom/reserved-label-name/{}", class)
                            } else if class == "value" && why.contains("9.223372036854775808e18") {
                                "C17/prom/value-2^63".to_string()
                            } else {
                                format!("C17/prom/{}", class)
                            };
                            violations.push(json!({"sig": sig, "what": why, "witness": {"case_index": i, "seed": seed, "series": format!("{:?}", series)}}));
                        }
                        let distinct_sets: BTreeSet<String> = series.iter().map(|s| format!("{:?}", s.labels.iter().map(|l| &l.0).collect::<Vec<_>>())).collect();
                        nontrivial = total_samples >= 2 && distinct_sets.len() >= 2;
                        if i % 5000 == 0 {
                            sample = json!({"kind": kind, "series": format!("{:?}", series), "http_status": status, "rows_stored": stored.iter().map(|b| b.num_rows()).sum::<usize>()});
                        }
                    }
                }
            }
        }
        "prom-hostile" => {
            let series = gen_prom(rng, false);
            let mut offs = vec![];
            let proto = encode_prom(&series, rng.chance(1, 3), &mut offs);
            let (mutated, how) = mutate(rng, &proto, &offs);
            // 3 in 4: valid snappy around the mutated protobuf; else mutate the compressed bytes too
            let (body, how) = if rng.chance(3, 4) {
                (snap::raw::Encoder::new().compress_vec(&mutated).unwrap_or_default(), how)
            } else {
                let c = snap::raw::Encoder::new().compress_vec(&proto).unwrap_or_default();
                let (m, h2) = mutate(rng, &c, &[]);
                (m, format!("snappy bytes: {}", h2))
            };
            body_for_hash = body.clone();
            begin(f, &body, &how);
            let snappy_ok = snap::raw::Decoder::new().decompress_vec(&body).is_ok();
            match env.post_write(body.clone()).await {
                Err(e) => {
                    let class = if how.contains("length") || how.contains("2^64") || how.contains("hostile") { "length-or-varint-overflow" } else { "other" };
                    violations.push(json!({"sig": format!("C17/panic/prom-hostile/{}", class), "what": format!("hostile remote-write body ({}) : {}", how, e),
                        "witness": {"case_index": i, "seed": seed, "mutation": how, "body_hex": hexs(&body), "body_len": body.len()}}));
                    outcome = "panic".into();
                }
                Ok(status) => {
                    outcome = format!("http{}", status / 100 * 100);
                    let _ = env.new_chunks().await;
                    nontrivial = snappy_ok;
                    // a truncated encoding must not be accepted
                    if how.starts_with("truncated") && status / 100 == 2 {
                        if let Ok(raw) = snap::raw::Decoder::new().decompress_vec(&body) {
                            if RefWriteRequest::decode(raw.as_slice()).is_err() {
                                violations.push(json!({"sig": "C17/prom/truncated-body-accepted", "what": format!("a remote-write body {} was answered with HTTP {}", how, status),
                                    "witness": {"case_index": i, "seed": seed, "mutation": how, "body_hex": hexs(&body)}}));
                            }
                        }
                    }
                }
            }
        }
        "otlp-wellformed" => {
            let (req, expected, desc) = gen_otlp(rng);
            body_for_hash = req.encode_to_vec();
            begin(f, &body_for_hash, "none");
            let r = std::panic::AssertUnwindSafe(env.otlp.export(tonic::Request::new(req))).catch_unwind().await;
            match r {
                Err(_) => {
                    violations.push(json!({"sig": "C17/panic/otlp-wellformed", "what": "panic in OTLP export", "witness": {"case_index": i, "seed": seed, "request": desc}}));
                    outcome = "panic".into();
                }
                Ok(res) => {
                    let stored = env.new_chunks().await;
                    outcome = if res.is_ok() { "grpc-ok".into() } else { "grpc-error".into() };
                    if expected.is_empty() {
                    } else if let Err(st) = res {
                        violations.push(json!({"sig": "C17/otlp/wellformed-request-rejected", "what": format!("OTLP export with {} points rejected: {}", expected.len(), st.message()),
                            "witness": {"case_index": i, "seed": seed, "request": desc}}));
                    } else {
                        rows_cmp = expected.len() as u64;
                        for (class, why) in compare(&stored, &expected) {
                            let sig = if why.contains("int>2^53") { "C17/otlp/int-above-2^53".to_string() } else { format!("C17/otlp/{}", class) };
                            violations.push(json!({"sig": sig, "what": why, "witness": {"case_index": i, "seed": seed, "request": desc}}));
                        }
                        nontrivial = expected.len() >= 2 && expected.iter().map(|e| format!("{:?}", e.labels.keys().collect::<Vec<_>>())).collect::<BTreeSet<_>>().len() >= 2;
                        if i % 5003 == 3 {
                            sample = json!({"kind": kind, "request": desc, "rows_stored": stored.iter().map(|b| b.num_rows()).sum::<usize>()});
                        }
                    }
                }
            }
        }
        "otlp-hostile" => {
            let (req, _e, _d) = gen_otlp(rng);
            let valid = req.encode_to_vec();
            let (body, how) = mutate(rng, &valid, &[]);
            body_for_hash = body.clone();
            begin(f, &body, &how);
            let decoded = std::panic::catch_unwind(|| ExportMetricsServiceRequest::decode(body.as_slice()));
            match decoded {
                Err(_) => {
                    violations.push(json!({"sig": "C17/panic/otlp-hostile/decode", "what": format!("protobuf decoding of a hostile OTLP body panicked ({})", how), "witness": {"case_index": i, "body_hex": hexs(&body)}}));
                    outcome = "panic".into();
                }
                Ok(Err(_)) => outcome = "decode-error".into(),
                Ok(Ok(req)) => {
                    nontrivial = true;
                    let r = std::panic::AssertUnwindSafe(env.otlp.export(tonic::Request::new(req))).catch_unwind().await;
                    let _ = env.new_chunks().await;
                    match r {
                        Err(_) => {
                            violations.push(json!({"sig": "C17/panic/otlp-hostile", "what": format!("OTLP export panicked on a hostile (decodable) request ({})", how),
                                "witness": {"case_index": i, "seed": seed, "mutation": how, "body_hex": hexs(&body)}}));
                            outcome = "panic".into();
                        }
                        Ok(Ok(_)) => outcome = "grpc-ok".into(),
                        Ok(Err(_)) => outcome = "grpc-error".into(),
                    }
                }
            }
        }
        "flight-wellformed" => {
            let k = 1 + rng.usize(6);
            let rowspecs: Vec<rows::RowSpec> = (0..k)
                .map(|j| rows::RowSpec { id: (i * 100 + j as u64) as i64, ts: 1_700_000_000_000_000_000 + rng.range(0, 1_000_000_000), metric: format!("m{}", rng.below(3)), host: if rng.chance(1, 3) { None } else { Some("h".into()) }, value: gen_value(rng) })
                .collect();
            let batch = rows::make_batch(*rng.pick(&[rows::SchemaKind::A, rows::SchemaKind::B, rows::SchemaKind::T]), &rowspecs);
            let frames = batch_to_flight_data(&batch).unwrap_or_default();
            body_for_hash = frames.iter().flat_map(|f| f.data_body.to_vec()).collect();
            begin(f, &body_for_hash, "none");
            let r = std::panic::AssertUnwindSafe(env.flight.process_stream(frames.into_iter())).catch_unwind().await;
            let stored = env.new_chunks().await;
            match r {
                Err(_) => {
                    violations.push(json!({"sig": "C17/panic/flight-wellformed", "what": "panic", "witness": {"case_index": i}}));
                    outcome = "panic".into();
                }
                Ok(Err(e)) => {
                    violations.push(json!({"sig": "C17/flight/wellformed-stream-rejected", "what": e.to_string(), "witness": {"case_index": i, "seed": seed}}));
                    outcome = "error".into();
                }
                Ok(Ok(n)) => {
                    outcome = "ok".into();
                    rows_cmp = k as u64;
                    let want = rows::canonical_rows(&[batch]);
                    let got = rows::canonical_rows(&stored);
                    if n != k as u64 || want != got {
                        violations.push(json!({"sig": "C17/flight/rows-differ", "what": format!("{} rows reported, stored rows differ from the frames sent", n),
                            "witness": {"case_index": i, "seed": seed, "sent": want, "stored": got}}));
                    }
                    nontrivial = k >= 2;
                }
            }
        }
        _ => {
            // flight-hostile
            let rowspecs: Vec<rows::RowSpec> = (0..3).map(|j| rows::RowSpec { id: j, ts: 1_700_000_000_000_000_000 + j, metric: "m".into(), host: Some("h".into()), value: 1.5 }).collect();
            let batch = rows::make_batch(rows::SchemaKind::B, &rowspecs);
            let mut frames = batch_to_flight_data(&batch).unwrap_or_default();
            let which = rng.usize(frames.len().max(1));
            let mut how = String::new();
            if let Some(fr) = frames.get_mut(which) {
                if rng.chance(1, 2) {
                    let (m, h) = mutate(rng, &fr.data_header, &[]);
                    fr.data_header = m.into();
                    how = format!("frame {} header: {}", which, h);
                } else {
                    let (m, h) = mutate(rng, &fr.data_body, &[]);
                    fr.data_body = m.into();
                    how = format!("frame {} body: {}", which, h);
                }
            }
            if rng.chance(1, 6) {
                frames.remove(0); // no schema message
                how.push_str(" + schema frame dropped");
            }
            body_for_hash = frames.iter().flat_map(|f| [f.data_header.to_vec(), f.data_body.to_vec()].concat()).collect();
            begin(f, &body_for_hash, &how);
            let r = std::panic::AssertUnwindSafe(env.flight.process_stream(frames.into_iter())).catch_unwind().await;
            let _ = env.new_chunks().await;
            match r {
                Err(_) => {
                    let part = if how.contains("header") { "header" } else { "body" };
                    violations.push(json!({"sig": format!("C17/panic/flight-hostile/{}", part), "what": format!("Flight DoPut stream with a hostile frame panicked the receiver ({})", how),
                        "witness": {"case_index": i, "seed": seed, "mutation": how, "frames_hex": hexs(&body_for_hash)}}));
                    outcome = "panic".into();
                }
                Ok(Ok(_)) => outcome = "ok".into(),
                Ok(Err(_)) => {
                    outcome = "error".into();
                    nontrivial = true;
                }
            }
        }
    }
    json!({"t": "done", "i": i, "kind": kind, "outcome": outcome, "nontrivial": nontrivial, "hash": hash_bytes(&body_for_hash), "rows": rows_cmp,
        "violations": violations, "sample": sample})
    .to_string()
}

// ---------------------------------------------------------------- OTLP generation

/// An attribute. Values spelled "int:<n>" / "bool:<b>" travel as typed AnyValues (their label text is the
/// plain decimal / true / false); everything else is a string value.
fn kv(k: &str, v: &str) -> KeyValue {
    let value = if let Some(i) = v.strip_prefix("int:").and_then(|x| x.parse::<i64>().ok()) {
        any_value::Value::IntValue(i)
    } else if let Some(b) = v.strip_prefix("bool:").and_then(|x| x.parse::<bool>().ok()) {
        any_value::Value::BoolValue(b)
    } else {
        any_value::Value::StringValue(v.to_string())
    };
    KeyValue { key: k.to_string(), value: Some(AnyValue { value: Some(value) }) }
}

fn label_text(v: &str) -> String {
    if let Some(i) = v.strip_prefix("int:").filter(|x| x.parse::<i64>().is_ok()) {
        i.to_string()
    } else if let Some(b) = v.strip_prefix("bool:").filter(|x| x.parse::<bool>().is_ok()) {
        b.to_string()
    } else {
        v.to_string()
    }
}

fn gen_otlp(rng: &mut Rng) -> (ExportMetricsServiceRequest, Vec<Expected>, String) {
    let mut expected = vec![];
    let mut desc = vec![];
    let nres = 1 + rng.usize(2);
    let base_ns: i64 = *rng.pick(&[3_600_000_000_000i64, 1_700_000_000_000_000_000, 1_700_000_000_000_000_000, 4_000_000_000_000_000_000]);
    let mut rms = vec![];
    for r in 0..nres {
        let res_attrs: Vec<(String, String)> = if rng.chance(1, 3) { vec![] } else { vec![("service.name".into(), format!("svc{}", r)), ("res_only".into(), "r".into())] };
        let mut metrics = vec![];
        for m in 0..1 + rng.usize(3) {
            let name = format!("otlp_metric_{}", rng.below(3));
            let npts = rng.usize(4);
            let mut mk_attrs = |rng: &mut Rng| -> Vec<(String, String)> {
                let mut a = vec![];
                if rng.chance(2, 3) {
                    a.push(("host".to_string(), format!("h{}", rng.below(3))));
                }
                if rng.chance(1, 3) {
                    a.push(("zone".to_string(), "z".to_string()));
                }
                if rng.chance(1, 4) {
                    a.push(("port".to_string(), format!("int:{}", rng.pick(&[0i64, 8080, -1, i64::MAX]))));
                }
                if rng.chance(1, 5) {
                    a.push(("canary".to_string(), format!("bool:{}", rng.chance(1, 2))));
                }
                if rng.chance(1, 4) {
                    // same key as a resource attribute: the point's value is the series' value
                    a.push(("res_only".to_string(), "from-point".to_string()));
                }
                if rng.chance(1, 3) {
                    rng.shuffle(&mut a);
                }
                a
            };
            let labels_of = |pa: &[(String, String)]| -> BTreeMap<String, String> {
                let mut l: BTreeMap<String, String> = res_attrs.iter().map(|(k, v)| (k.clone(), label_text(v))).collect();
                for (k, v) in pa {
                    l.insert(k.clone(), label_text(v));
                }
                l
            };
            let data = match rng.below(4) {
                0 | 1 => {
                    let mut pts = vec![];
                    for _ in 0..npts {
                        let pa = mk_attrs(rng);
                        let t = base_ns + rng.range(-3_000_000_000_000, 3_000_000_000_000);
                        let (val, f, exact) = if rng.chance(1, 2) {
                            let v = gen_value(rng);
                            (Some(number_data_point::Value::AsDouble(v)), v, None)
                        } else {
                            let iv = *rng.pick(&[0i64, 1, -1, 42, 9007199254740992, 9007199254740993, -9007199254740993, i64::MAX, i64::MIN, 123456789]);
                            (Some(number_data_point::Value::AsInt(iv)), iv as f64, Some(iv))
                        };
                        desc.push(format!("{} @{} {:?} attrs={:?}", name, t, val, pa));
                        expected.push(Expected { ts_ns: t, name: name.clone(), labels: labels_of(&pa), value: f, exact_int: exact, check_value: true });
                        pts.push(NumberDataPoint { attributes: pa.iter().map(|(k, v)| kv(k, v)).collect(), start_time_unix_nano: 0, time_unix_nano: t as u64, exemplars: vec![], flags: 0, value: val });
                    }
                    if m % 2 == 0 {
                        Data::Gauge(Gauge { data_points: pts })
                    } else {
                        Data::Sum(Sum { data_points: pts, aggregation_temporality: 2, is_monotonic: true })
                    }
                }
                2 => {
                    let mut pts = vec![];
                    for _ in 0..npts {
                        let pa = mk_attrs(rng);
                        let t = base_ns + rng.range(-3_000_000_000_000, 3_000_000_000_000);
                        let sum = if rng.chance(1, 3) { None } else { Some(gen_value(rng)) };
                        let count = rng.below(1000);
                        desc.push(format!("{} histogram @{} sum={:?} count={}", name, t, sum, count));
                        expected.push(Expected { ts_ns: t, name: name.clone(), labels: labels_of(&pa), value: sum.unwrap_or(count as f64), exact_int: None, check_value: true });
                        pts.push(HistogramDataPoint { attributes: pa.iter().map(|(k, v)| kv(k, v)).collect(), start_time_unix_nano: 0, time_unix_nano: t as u64, count, sum, bucket_counts: vec![1, 2], explicit_bounds: vec![1.0], exemplars: vec![], flags: 0, min: None, max: None });
                    }
                    Data::Histogram(Histogram { data_points: pts, aggregation_temporality: 2 })
                }
                _ => {
                    let mut pts = vec![];
                    for _ in 0..npts {
                        let pa = mk_attrs(rng);
                        let t = base_ns + rng.range(-3_000_000_000_000, 3_000_000_000_000);
                        let sum = gen_value(rng);
                        desc.push(format!("{} summary @{} sum={:e}", name, t, sum));
                        expected.push(Expected { ts_ns: t, name: name.clone(), labels: labels_of(&pa), value: sum, exact_int: None, check_value: true });
                        pts.push(SummaryDataPoint { attributes: pa.iter().map(|(k, v)| kv(k, v)).collect(), start_time_unix_nano: 0, time_unix_nano: t as u64, count: 3, sum, quantile_values: vec![], flags: 0 });
                    }
                    Data::Summary(Summary { data_points: pts })
                }
            };
            metrics.push(Metric { name, description: String::new(), unit: String::new(), metadata: vec![], data: Some(data) });
        }
        rms.push(ResourceMetrics {
            resource: if res_attrs.is_empty() { None } else { Some(Resource { attributes: res_attrs.iter().map(|(k, v)| kv(k, v)).collect(), dropped_attributes_count: 0 }) },
            scope_metrics: {
                // one scope, or the metrics spread over two scopes of the same resource
                if metrics.len() >= 2 && rng.chance(1, 3) {
                    let tail = metrics.split_off(1);
                    vec![ScopeMetrics { scope: None, metrics, schema_url: String::new() }, ScopeMetrics { scope: None, metrics: tail, schema_url: String::new() }]
                } else {
                    vec![ScopeMetrics { scope: None, metrics, schema_url: String::new() }]
                }
            },
            schema_url: String::new(),
        });
    }
    (ExportMetricsServiceRequest { resource_metrics: rms }, expected, desc.join("; "))
}

// ---------------------------------------------------------------- reference decoder (prost)

#[derive(Clone, PartialEq, prost::Message)]
struct RefLabel {
    #[prost(string, tag = "1")]
    name: String,
    #[prost(string, tag = "2")]
    value: String,
}
#[derive(Clone, PartialEq, prost::Message)]
struct RefSample {
    #[prost(double, tag = "1")]
    value: f64,
    #[prost(int64, tag = "2")]
    timestamp: i64,
}
#[derive(Clone, PartialEq, prost::Message)]
struct RefTimeSeries {
    #[prost(message, repeated, tag = "1")]
    labels: Vec<RefLabel>,
    #[prost(message, repeated, tag = "2")]
    samples: Vec<RefSample>,
}
#[derive(Clone, PartialEq, prost::Message)]
struct RefWriteRequest {
    #[prost(message, repeated, tag = "1")]
    timeseries: Vec<RefTimeSeries>,
}
