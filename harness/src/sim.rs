//! SIM — deterministic request-granularity simulator.
//!
//! * `GateStore`: an `ObjectStore` handle per actor over one shared
//!   `InMemory`. Every request is logged (call / return), optionally parked on
//!   the scheduler gate, and subject to the fault plan (fail-before /
//!   fail-after).
//! * `Ctl`: the shared controller (event log, parked list, fault plan).
//! * `barrier()`: with a paused current-thread runtime a 1 ms sleep returns
//!   only when every other task is blocked and no spawn_blocking is in
//!   flight, i.e. "everyone else is parked".
//! * pause hooks of the repository (`verif_hooks::pause`) park on the same gate.

use crate::rng::Rng;
use async_trait::async_trait;
use bytes::Bytes;
use futures::stream::BoxStream;
use object_store::memory::InMemory;
use object_store::path::Path;
use object_store::{
    GetOptions, GetResult, ListResult, MultipartUpload, ObjectMeta, ObjectStore, PutMode,
    PutMultipartOpts, PutOptions, PutPayload, PutResult,
};
use parking_lot::Mutex;
use serde_json::{json, Value};
use std::collections::HashMap;
use std::sync::Arc;
use std::time::Duration;
use tokio::sync::oneshot;

#[derive(Clone, Copy, Debug, PartialEq, Eq)]
pub enum FaultMode {
    /// return an error, the request has no effect
    Before,
    /// apply the request to the backing store, then return an error
    After,
}

#[derive(Clone, Debug)]
pub struct Fault {
    /// None = any actor
    pub actor: Option<String>,
    /// index among the requests of that actor (or all actors) since `reset_counters`
    pub index: u64,
    pub mode: FaultMode,
}

#[derive(Clone, Debug, PartialEq, Eq)]
pub enum Release {
    Proceed,
    Fail(FaultMode),
}

#[derive(Clone, Debug)]
pub struct Event {
    pub seq: u64,
    pub req: u64,
    pub actor: String,
    /// true = call, false = return
    pub call: bool,
    /// GET, PUT, DELETE, LIST, COPY, HOOK, META:<name>
    pub op: String,
    pub path: String,
    /// for PUT: create / update:<etag> / overwrite
    pub mode: String,
    /// frozen wall clock at the event
    pub wall_ns: i64,
    /// return only: ok / notfound / precondition / exists / injected-before / injected-after / err:<text>
    pub result: String,
    /// return only, PUT ok: the new etag; GET ok: the etag read
    pub etag: Option<String>,
    /// PUT call: payload if the object is a metadata object (.json), else None
    pub payload: Option<Bytes>,
    pub len: usize,
}

impl Event {
    pub fn brief(&self) -> Value {
        json!({
            "seq": self.seq, "req": self.req, "actor": self.actor,
            "phase": if self.call {"call"} else {"return"},
            "op": self.op, "path": self.path, "mode": self.mode,
            "result": self.result, "etag": self.etag, "wall_ns": self.wall_ns, "len": self.len,
        })
    }
}

#[derive(Clone, Debug)]
pub struct ParkedInfo {
    pub req: u64,
    pub actor: String,
    pub op: String,
    pub path: String,
    pub mode: String,
}

struct Parked {
    info: ParkedInfo,
    tx: oneshot::Sender<Release>,
}

#[derive(Default)]
struct CtlInner {
    gating: bool,
    /// only requests for which this returns true are parked (others pass through, logged)
    gate_filter: Option<Arc<dyn Fn(&ParkedInfo) -> bool + Send + Sync>>,
    events: Vec<Event>,
    parked: Vec<Parked>,
    next_req: u64,
    next_seq: u64,
    faults: Vec<Fault>,
    per_actor: HashMap<String, u64>,
    /// actors of a crashed "process": their requests never complete
    dead: std::collections::HashSet<String>,
    global_count: u64,
    /// delete observer: called with (path) at the instant a DELETE is applied
    hooks_enabled: bool,
    /// contention burst: see `Ctl::set_contention`
    contention: Option<Contention>,
    contention_seen: u64,
    /// faults aimed at a kind of request: see `Ctl::set_match_faults`
    match_faults: Vec<(FaultMatch, u64)>,
}

/// A fault aimed at the `nth` request (0-based) whose actor starts with `actor_prefix`, whose operation is `op`
/// and whose path contains `path_contains` - e.g. the second catalog PUT of a compactor, whichever request index
/// that turns out to be in a given schedule.
#[derive(Clone, Debug)]
pub struct FaultMatch {
    pub actor_prefix: String,
    pub op: String,
    pub path_contains: String,
    pub nth: u64,
    pub mode: FaultMode,
}

/// A burst of lost compare-and-swap races: the conditional PUTs number `from .. from + count`
/// (counted among conditional PUTs whose path contains `path_contains`) find that "another
/// client" has just rewritten the object - same bytes, new ETag - so the backing store itself
/// answers Precondition. Five in a row exhaust the catalog client's retry budget.
#[derive(Clone, Debug)]
pub struct Contention {
    pub path_contains: String,
    pub from: u64,
    pub count: u64,
}

pub struct Ctl {
    pub backing: Arc<InMemory>,
    inner: Mutex<CtlInner>,
    /// called synchronously right before a DELETE is applied to the backing store
    pub on_delete: Mutex<Option<Arc<dyn Fn(&str) + Send + Sync>>>,
}

tokio::task_local! {
    pub static ACTOR: String;
}

pub fn current_actor() -> String {
    ACTOR.try_with(|a| a.clone()).unwrap_or_else(|_| "?".to_string())
}

static CURRENT: Mutex<Option<Arc<Ctl>>> = Mutex::new(None);

/// Install the global pause callback once per process.
pub fn install_hooks() {
    cardinalsin::verif_hooks::set_pause(Some(Arc::new(|name: &'static str| {
        let ctl = CURRENT.lock().clone();
        Box::pin(async move {
            if let Some(ctl) = ctl {
                ctl.hook(name).await;
            }
        })
    })));
}

impl Ctl {
    pub fn new() -> Arc<Ctl> {
        Self::with_backing(Arc::new(InMemory::new()))
    }
    pub fn with_backing(backing: Arc<InMemory>) -> Arc<Ctl> {
        let c = Arc::new(Ctl {
            backing,
            inner: Mutex::new(CtlInner::default()),
            on_delete: Mutex::new(None),
        });
        *CURRENT.lock() = Some(c.clone());
        c
    }
    /// Make this controller the target of the repository's pause hooks.
    pub fn make_current(self: &Arc<Self>) {
        *CURRENT.lock() = Some(self.clone());
    }
    pub fn clear_current() {
        *CURRENT.lock() = None;
    }
    pub fn store(self: &Arc<Self>, actor: &str) -> Arc<GateStore> {
        Arc::new(GateStore {
            ctl: self.clone(),
            actor: actor.to_string(),
        })
    }
    pub fn set_gating(&self, on: bool) {
        let mut g = self.inner.lock();
        g.gating = on;
        if !on {
            // release everything that is parked
            for p in g.parked.drain(..) {
                let _ = p.tx.send(Release::Proceed);
            }
        }
    }
    /// Crash of a process: every actor whose name starts with `prefix` stops issuing requests
    /// (parked requests of those actors are dropped, later ones never complete).
    pub fn kill_actors(&self, prefix: &str) {
        let mut g = self.inner.lock();
        let names: Vec<String> = g.per_actor.keys().filter(|a| a.starts_with(prefix)).cloned().collect();
        for n in names {
            g.dead.insert(n);
        }
        g.dead.insert(prefix.to_string());
        g.parked.retain(|p| !p.info.actor.starts_with(prefix));
    }
    pub fn set_hooks(&self, on: bool) {
        self.inner.lock().hooks_enabled = on;
    }
    pub fn set_gate_filter(&self, f: Option<Arc<dyn Fn(&ParkedInfo) -> bool + Send + Sync>>) {
        self.inner.lock().gate_filter = f;
    }
    pub fn set_faults(&self, f: Vec<Fault>) {
        self.inner.lock().faults = f;
    }
    pub fn set_match_faults(&self, f: Vec<FaultMatch>) {
        self.inner.lock().match_faults = f.into_iter().map(|m| (m, 0)).collect();
    }
    pub fn set_contention(&self, c: Option<Contention>) {
        let mut g = self.inner.lock();
        g.contention = c;
        g.contention_seen = 0;
    }
    /// Is this conditional PUT one of the contended ones? (advances the ordinal)
    fn contended(&self, path: &str) -> bool {
        let mut g = self.inner.lock();
        let Some(c) = g.contention.clone() else { return false };
        if !path.contains(&c.path_contains) {
            return false;
        }
        let k = g.contention_seen;
        g.contention_seen += 1;
        k >= c.from && k < c.from + c.count
    }
    pub fn reset_counters(&self) {
        let mut g = self.inner.lock();
        g.per_actor.clear();
        g.global_count = 0;
    }
    pub fn request_count(&self, actor: Option<&str>) -> u64 {
        let g = self.inner.lock();
        match actor {
            Some(a) => g.per_actor.get(a).copied().unwrap_or(0),
            None => g.global_count,
        }
    }
    pub fn events(&self) -> Vec<Event> {
        self.inner.lock().events.clone()
    }
    pub fn events_len(&self) -> usize {
        self.inner.lock().events.len()
    }
    pub fn events_from(&self, from: usize) -> Vec<Event> {
        self.inner.lock().events[from..].to_vec()
    }
    pub fn parked(&self) -> Vec<ParkedInfo> {
        self.inner
            .lock()
            .parked
            .iter()
            .map(|p| p.info.clone())
            .collect()
    }
    /// Release one parked request. Returns false if it is gone (task dropped).
    pub fn release(&self, req: u64, how: Release) -> bool {
        let mut g = self.inner.lock();
        if let Some(pos) = g.parked.iter().position(|p| p.info.req == req) {
            let p = g.parked.remove(pos);
            p.tx.send(how).is_ok()
        } else {
            false
        }
    }
    /// Drop parked entries whose task no longer exists.
    pub fn prune_parked(&self) {
        self.inner.lock().parked.retain(|p| !p.tx.is_closed());
    }

    fn log(&self, mut e: Event) -> u64 {
        let mut g = self.inner.lock();
        e.seq = g.next_seq;
        g.next_seq += 1;
        let s = e.seq;
        g.events.push(e);
        s
    }

    /// Free-form marker event (e.g. "ack", "crash", "clock").
    pub fn mark(&self, actor: &str, op: &str, path: &str, result: &str) {
        self.log(Event {
            seq: 0,
            req: u64::MAX,
            actor: actor.to_string(),
            call: false,
            op: op.to_string(),
            path: path.to_string(),
            mode: String::new(),
            wall_ns: crate::clock::wall_ns(),
            result: result.to_string(),
            etag: None,
            payload: None,
            len: 0,
        });
    }

    /// Common entry of every request: log the call, consult the fault plan,
    /// park on the gate. Returns (req id, decision).
    async fn enter(
        &self,
        actor: &str,
        op: &str,
        path: &str,
        mode: &str,
        payload: Option<Bytes>,
        len: usize,
    ) -> (u64, Release) {
        if self.inner.lock().dead.contains(actor) {
            // a request of a crashed process: it is never issued
            std::future::pending::<()>().await;
        }
        let (req, planned, rx) = {
            let mut g = self.inner.lock();
            let req = g.next_req;
            g.next_req += 1;
            let idx_actor = {
                let c = g.per_actor.entry(actor.to_string()).or_insert(0);
                let v = *c;
                *c += 1;
                v
            };
            let idx_global = g.global_count;
            g.global_count += 1;
            let mut planned = g
                .faults
                .iter()
                .find(|f| match &f.actor {
                    Some(a) => a == actor && f.index == idx_actor,
                    None => f.index == idx_global,
                })
                .map(|f| f.mode);
            for (m, seen) in g.match_faults.iter_mut() {
                if actor.starts_with(&m.actor_prefix) && op == m.op && path.contains(&m.path_contains) {
                    if *seen == m.nth && planned.is_none() {
                        planned = Some(m.mode);
                    }
                    *seen += 1;
                }
            }
            let seq = g.next_seq;
            g.next_seq += 1;
            g.events.push(Event {
                seq,
                req,
                actor: actor.to_string(),
                call: true,
                op: op.to_string(),
                path: path.to_string(),
                mode: mode.to_string(),
                wall_ns: crate::clock::wall_ns(),
                result: String::new(),
                etag: None,
                payload,
                len,
            });
            let info = ParkedInfo {
                req,
                actor: actor.to_string(),
                op: op.to_string(),
                path: path.to_string(),
                mode: mode.to_string(),
            };
            let gate = g.gating
                && g.gate_filter
                    .as_ref()
                    .map(|f| f(&info))
                    .unwrap_or(true);
            let rx = if gate {
                let (tx, rx) = oneshot::channel();
                g.parked.push(Parked { info, tx });
                Some(rx)
            } else {
                None
            };
            (req, planned, rx)
        };
        let mut decision = Release::Proceed;
        if let Some(rx) = rx {
            decision = match rx.await {
                Ok(d) => d,
                Err(_) => {
                    // the gate entry was dropped: the issuing process has crashed
                    std::future::pending::<()>().await;
                    Release::Proceed
                }
            };
        }
        if decision == Release::Proceed {
            if let Some(m) = planned {
                decision = Release::Fail(m);
            }
        }
        (req, decision)
    }

    fn leave(&self, req: u64, actor: &str, op: &str, path: &str, result: &str, etag: Option<String>, len: usize) {
        self.log(Event {
            seq: 0,
            req,
            actor: actor.to_string(),
            call: false,
            op: op.to_string(),
            path: path.to_string(),
            mode: String::new(),
            wall_ns: crate::clock::wall_ns(),
            result: result.to_string(),
            etag,
            payload: None,
            len,
        });
    }

    /// A repository pause hook: parks like a request (op = HOOK).
    pub async fn hook(&self, name: &'static str) {
        let enabled = {
            let g = self.inner.lock();
            g.hooks_enabled && g.gating
        };
        if !enabled {
            return;
        }
        let actor = current_actor();
        let (req, _d) = self.enter(&actor, "HOOK", name, "", None, 0).await;
        self.leave(req, &actor, "HOOK", name, "ok", None, 0);
    }

    /// A gate usable by harness-side wrappers (RecordingMeta): park as op META:<name>.
    pub async fn gate_call(&self, actor: &str, op: &str, path: &str) -> (u64, Release) {
        self.enter(actor, op, path, "", None, 0).await
    }
    pub fn gate_return(&self, req: u64, actor: &str, op: &str, path: &str, result: &str) {
        self.leave(req, actor, op, path, result, None, 0);
    }
}

fn injected(mode: FaultMode, path: &str) -> object_store::Error {
    object_store::Error::Generic {
        store: "GateStore",
        source: format!(
            "injected fault ({}) on {}",
            if mode == FaultMode::Before {
                "before effect"
            } else {
                "after effect"
            },
            path
        )
        .into(),
    }
}

fn classify(e: &object_store::Error) -> String {
    match e {
        object_store::Error::NotFound { .. } => "notfound".into(),
        object_store::Error::Precondition { .. } => "precondition".into(),
        object_store::Error::AlreadyExists { .. } => "exists".into(),
        object_store::Error::NotModified { .. } => "notmodified".into(),
        other => format!("err:{}", other),
    }
}

pub struct GateStore {
    pub ctl: Arc<Ctl>,
    pub actor: String,
}

impl std::fmt::Display for GateStore {
    fn fmt(&self, f: &mut std::fmt::Formatter<'_>) -> std::fmt::Result {
        write!(f, "GateStore({})", self.actor)
    }
}
impl std::fmt::Debug for GateStore {
    fn fmt(&self, f: &mut std::fmt::Formatter<'_>) -> std::fmt::Result {
        write!(f, "GateStore({})", self.actor)
    }
}

fn is_meta_path(p: &str) -> bool {
    p.ends_with(".json")
}

#[async_trait]
impl ObjectStore for GateStore {
    async fn put_opts(
        &self,
        location: &Path,
        payload: PutPayload,
        opts: PutOptions,
    ) -> object_store::Result<PutResult> {
        let path = location.to_string();
        let mode = match &opts.mode {
            PutMode::Overwrite => "overwrite".to_string(),
            PutMode::Create => "create".to_string(),
            PutMode::Update(v) => format!("update:{}", v.e_tag.clone().unwrap_or_default()),
        };
        let bytes: Bytes = payload.clone().into();
        let len = bytes.len();
        let keep = if is_meta_path(&path) { Some(bytes) } else { None };
        let (req, d) = self.ctl.enter(&self.actor, "PUT", &path, &mode, keep, len).await;
        match d {
            Release::Fail(FaultMode::Before) => {
                self.ctl.leave(req, &self.actor, "PUT", &path, "injected-before", None, len);
                Err(injected(FaultMode::Before, &path))
            }
            Release::Fail(FaultMode::After) => {
                let r = self.ctl.backing.put_opts(location, payload, opts).await;
                let applied = match &r {
                    Ok(p) => format!("injected-after(applied,etag={})", p.e_tag.clone().unwrap_or_default()),
                    Err(e) => format!("injected-after(not-applied:{})", classify(e)),
                };
                let etag = r.as_ref().ok().and_then(|p| p.e_tag.clone());
                self.ctl.leave(req, &self.actor, "PUT", &path, &applied, etag, len);
                Err(injected(FaultMode::After, &path))
            }
            Release::Proceed => {
                if matches!(opts.mode, PutMode::Update(_)) && self.ctl.contended(&path) {
                    // another client's write lands first: same content, new ETag
                    if let Ok(cur) = self.ctl.backing.get(location).await {
                        if let Ok(b) = cur.bytes().await {
                            let n = b.len();
                            let r = self.ctl.backing.put(location, b.clone().into()).await;
                            // logged like any other client's PUT (own request number, call + return), so
                            // that monitors walking the committed versions see a version with the old content
                            let creq = {
                                let mut g = self.ctl.inner.lock();
                                let q = g.next_req;
                                g.next_req += 1;
                                q
                            };
                            for call in [true, false] {
                                self.ctl.log(Event {
                                    seq: 0,
                                    req: creq,
                                    actor: "contender".to_string(),
                                    call,
                                    op: "PUT".to_string(),
                                    path: path.clone(),
                                    mode: "overwrite(same-content)".to_string(),
                                    wall_ns: crate::clock::wall_ns(),
                                    result: if call { String::new() } else if r.is_ok() { "ok".to_string() } else { "error".to_string() },
                                    etag: if call { None } else { r.as_ref().ok().and_then(|p| p.e_tag.clone()) },
                                    payload: if call { Some(b.clone()) } else { None },
                                    len: n,
                                });
                            }
                        }
                    }
                }
                let r = self.ctl.backing.put_opts(location, payload, opts).await;
                match &r {
                    Ok(p) => self.ctl.leave(req, &self.actor, "PUT", &path, "ok", p.e_tag.clone(), len),
                    Err(e) => self.ctl.leave(req, &self.actor, "PUT", &path, &classify(e), None, len),
                }
                r
            }
        }
    }

    async fn put_multipart_opts(
        &self,
        location: &Path,
        opts: PutMultipartOpts,
    ) -> object_store::Result<Box<dyn MultipartUpload>> {
        // not used by cardinalsin's own code paths; pass through, logged
        let path = location.to_string();
        let (req, d) = self.ctl.enter(&self.actor, "PUT_MULTIPART", &path, "", None, 0).await;
        if let Release::Fail(m) = d {
            self.ctl.leave(req, &self.actor, "PUT_MULTIPART", &path, "injected-before", None, 0);
            return Err(injected(m, &path));
        }
        let r = self.ctl.backing.put_multipart_opts(location, opts).await;
        self.ctl.leave(req, &self.actor, "PUT_MULTIPART", &path, if r.is_ok() { "ok" } else { "err" }, None, 0);
        r
    }

    async fn get_opts(&self, location: &Path, options: GetOptions) -> object_store::Result<GetResult> {
        let path = location.to_string();
        let mode = if options.head {
            "head".to_string()
        } else if let Some(r) = &options.range {
            format!("range:{:?}", r)
        } else {
            String::new()
        };
        let (req, d) = self.ctl.enter(&self.actor, "GET", &path, &mode, None, 0).await;
        if let Release::Fail(m) = d {
            self.ctl.leave(
                req,
                &self.actor,
                "GET",
                &path,
                if m == FaultMode::Before { "injected-before" } else { "injected-after" },
                None,
                0,
            );
            return Err(injected(m, &path));
        }
        let r = self.ctl.backing.get_opts(location, options).await;
        match &r {
            Ok(g) => self.ctl.leave(req, &self.actor, "GET", &path, "ok", g.meta.e_tag.clone(), g.meta.size),
            Err(e) => self.ctl.leave(req, &self.actor, "GET", &path, &classify(e), None, 0),
        }
        r
    }

    async fn delete(&self, location: &Path) -> object_store::Result<()> {
        let path = location.to_string();
        let (req, d) = self.ctl.enter(&self.actor, "DELETE", &path, "", None, 0).await;
        match d {
            Release::Fail(FaultMode::Before) => {
                self.ctl.leave(req, &self.actor, "DELETE", &path, "injected-before", None, 0);
                Err(injected(FaultMode::Before, &path))
            }
            other => {
                let obs = self.ctl.on_delete.lock().clone();
                if let Some(f) = obs {
                    f(&path);
                }
                let existed = self.ctl.backing.head(location).await.is_ok();
                let r = self.ctl.backing.delete(location).await;
                let res = match (&r, &other) {
                    (Ok(_), Release::Proceed) => {
                        if existed { "ok".to_string() } else { "ok(absent)".to_string() }
                    }
                    (Ok(_), _) => "injected-after(applied)".to_string(),
                    (Err(e), Release::Proceed) => classify(e),
                    (Err(e), _) => format!("injected-after(not-applied:{})", classify(e)),
                };
                self.ctl.leave(req, &self.actor, "DELETE", &path, &res, None, 0);
                if other != Release::Proceed {
                    return Err(injected(FaultMode::After, &path));
                }
                r
            }
        }
    }

    fn list(&self, prefix: Option<&Path>) -> BoxStream<'_, object_store::Result<ObjectMeta>> {
        // listing is logged but not gated (a stream cannot await the gate before creation)
        let p = prefix.map(|p| p.to_string()).unwrap_or_default();
        self.ctl.mark(&self.actor, "LIST", &p, "ok");
        self.ctl.backing.list(prefix)
    }

    async fn list_with_delimiter(&self, prefix: Option<&Path>) -> object_store::Result<ListResult> {
        let p = prefix.map(|p| p.to_string()).unwrap_or_default();
        let (req, d) = self.ctl.enter(&self.actor, "LIST", &p, "delimiter", None, 0).await;
        if let Release::Fail(m) = d {
            self.ctl.leave(req, &self.actor, "LIST", &p, "injected-before", None, 0);
            return Err(injected(m, &p));
        }
        let r = self.ctl.backing.list_with_delimiter(prefix).await;
        self.ctl.leave(req, &self.actor, "LIST", &p, if r.is_ok() { "ok" } else { "err" }, None, 0);
        r
    }

    async fn copy(&self, from: &Path, to: &Path) -> object_store::Result<()> {
        let p = format!("{}=>{}", from, to);
        let (req, d) = self.ctl.enter(&self.actor, "COPY", &p, "", None, 0).await;
        if let Release::Fail(FaultMode::Before) = d {
            self.ctl.leave(req, &self.actor, "COPY", &p, "injected-before", None, 0);
            return Err(injected(FaultMode::Before, &p));
        }
        let r = self.ctl.backing.copy(from, to).await;
        self.ctl.leave(req, &self.actor, "COPY", &p, if r.is_ok() { "ok" } else { "err" }, None, 0);
        if let Release::Fail(m) = d {
            return Err(injected(m, &p));
        }
        r
    }

    async fn copy_if_not_exists(&self, from: &Path, to: &Path) -> object_store::Result<()> {
        let p = format!("{}=>{}", from, to);
        let (req, d) = self.ctl.enter(&self.actor, "COPY_IF_NOT_EXISTS", &p, "", None, 0).await;
        if let Release::Fail(FaultMode::Before) = d {
            self.ctl.leave(req, &self.actor, "COPY_IF_NOT_EXISTS", &p, "injected-before", None, 0);
            return Err(injected(FaultMode::Before, &p));
        }
        let r = self.ctl.backing.copy_if_not_exists(from, to).await;
        self.ctl.leave(req, &self.actor, "COPY_IF_NOT_EXISTS", &p, if r.is_ok() { "ok" } else { "err" }, None, 0);
        if let Release::Fail(m) = d {
            return Err(injected(m, &p));
        }
        r
    }
}

/// "Everyone else is blocked": see module docs.
pub async fn barrier() {
    tokio::time::sleep(Duration::from_millis(1)).await;
}

/// Scheduling strategies over the parked set.
#[derive(Clone, Debug)]
pub enum Strategy {
    Uniform,
    /// PCT-like: actor priorities, `change_points` steps at which the running actor is demoted
    Pct { change_points: Vec<u64> },
    /// starve `victim`: between its GET and its PUT let a rival complete a GET+PUT pair
    Starve { victim: String },
    /// uniform, except that requests of `actor` are passed over 15 times out of 16 while anyone else can run:
    /// that actor's operations last long (a long-running query, a slow node)
    Slow { actor: String },
}

pub struct Scheduler {
    pub rng: Rng,
    pub strategy: Strategy,
    pub decisions: String,
    pub steps: u64,
    prio: HashMap<String, i64>,
    next_low: i64,
    /// for Starve: rival currently being driven through a full cycle
    rival_in_cycle: Option<String>,
    rival_committed: bool,
    starve_wait: u32,
    /// probability (per 1000) of letting virtual time pass although requests are parked
    pub tick_permille: u64,
}

pub enum Step {
    Released(ParkedInfo),
    Ticked,
}

impl Scheduler {
    pub fn new(rng: Rng, strategy: Strategy) -> Self {
        Scheduler {
            rng,
            strategy,
            decisions: String::new(),
            steps: 0,
            prio: HashMap::new(),
            next_low: -1,
            rival_in_cycle: None,
            rival_committed: false,
            starve_wait: 0,
            tick_permille: 30,
        }
    }

    fn prio_of(&mut self, actor: &str) -> i64 {
        if let Some(p) = self.prio.get(actor) {
            return *p;
        }
        let p = self.rng.range(1, 1_000_000);
        self.prio.insert(actor.to_string(), p);
        p
    }

    /// Choose the index of the parked request to release next.
    pub fn choose(&mut self, parked: &[ParkedInfo]) -> usize {
        match self.strategy.clone() {
            Strategy::Uniform => self.rng.usize(parked.len()),
            Strategy::Slow { actor } => {
                let others: Vec<usize> = parked.iter().enumerate().filter(|(_, p)| p.actor != actor).map(|(i, _)| i).collect();
                if others.is_empty() || self.rng.chance(1, 16) {
                    self.rng.usize(parked.len())
                } else {
                    others[self.rng.usize(others.len())]
                }
            }
            Strategy::Pct { change_points } => {
                let mut best = 0usize;
                let mut best_p = i64::MIN;
                for (i, p) in parked.iter().enumerate() {
                    let pr = self.prio_of(&p.actor);
                    if pr > best_p {
                        best_p = pr;
                        best = i;
                    }
                }
                if change_points.contains(&self.steps) {
                    let a = parked[best].actor.clone();
                    self.prio.insert(a, self.next_low);
                    self.next_low -= 1;
                }
                best
            }
            Strategy::Starve { victim } => {
                // Drive the victim into consecutive CAS conflicts: let its GET through, then let
                // one rival run a complete GET+PUT (a commit), then release the victim's PUT.
                if let Some(r) = self.rival_in_cycle.clone() {
                    if let Some(i) = parked.iter().position(|p| p.actor == r) {
                        if parked[i].op == "PUT" {
                            self.rival_in_cycle = None;
                            self.rival_committed = true;
                        }
                        return i;
                    }
                    self.rival_in_cycle = None;
                }
                if let Some(i) = parked.iter().position(|p| p.actor == victim && p.op != "PUT") {
                    self.rival_committed = false;
                    return i;
                }
                if let Some(vi) = parked.iter().position(|p| p.actor == victim) {
                    if self.rival_committed {
                        self.rival_committed = false;
                        return vi;
                    }
                    let rivals: Vec<usize> = parked
                        .iter()
                        .enumerate()
                        .filter(|(_, p)| p.actor != victim && p.op != "PUT")
                        .map(|(i, _)| i)
                        .collect();
                    if !rivals.is_empty() {
                        let i = rivals[self.rng.usize(rivals.len())];
                        self.rival_in_cycle = Some(parked[i].actor.clone());
                        return i;
                    }
                    // rivals only at PUT (their GET may be stale) or none: release one of them, else the victim
                    if let Some(i) = parked.iter().position(|p| p.actor != victim) {
                        return i;
                    }
                    return vi;
                }
                self.rng.usize(parked.len())
            }
        }
    }

    /// One scheduling step: barrier, then release one parked request (or let
    /// virtual time pass when nothing is parked / by chance).
    pub async fn step(&mut self, ctl: &Ctl) -> Step {
        barrier().await;
        ctl.prune_parked();
        let parked = ctl.parked();
        self.steps += 1;
        // starvation: while the victim sleeps in its backoff, hold the rivals back (let only time pass)
        let mut wait_for_victim = false;
        if let Strategy::Starve { victim } = &self.strategy {
            if parked.iter().any(|p| &p.actor == victim) {
                self.starve_wait = 0;
            } else if !parked.is_empty() && self.starve_wait < 80 {
                self.starve_wait += 1;
                wait_for_victim = true;
            }
        }
        if parked.is_empty() || wait_for_victim || self.rng.below(1000) < self.tick_permille {
            self.decisions.push('.');
            tokio::time::sleep(Duration::from_millis(25)).await;
            return Step::Ticked;
        }
        let i = self.choose(&parked);
        let p = parked[i].clone();
        // decision string: actor initial + op initial (compact identity of the schedule)
        self.decisions.push_str(&format!(
            "{}{}",
            p.actor,
            match p.op.as_str() {
                "GET" => "g",
                "PUT" => "p",
                "DELETE" => "d",
                "HOOK" => "h",
                _ => "m",
            }
        ));
        self.decisions.push(' ');
        ctl.release(p.req, Release::Proceed);
        Step::Released(p)
    }
}

/// Run `f` to completion on a fresh paused current-thread runtime.
pub fn run_sim<F, T>(f: F) -> T
where
    F: std::future::Future<Output = T>,
{
    let rt = tokio::runtime::Builder::new_current_thread()
        .enable_all()
        .start_paused(true)
        .build()
        .expect("runtime");
    let r = rt.block_on(f);
    // dropping the runtime drops every task that is still parked
    drop(rt);
    Ctl::clear_current();
    r
}

/// Spawn an actor task with its name in the task-local (hooks learn the actor from it).
pub fn spawn_actor<F>(name: &str, f: F) -> tokio::task::JoinHandle<F::Output>
where
    F: std::future::Future + Send + 'static,
    F::Output: Send + 'static,
{
    tokio::spawn(ACTOR.scope(name.to_string(), f))
}
