//! Row identity: every generated row carries a unique id (Int64 column `id`,
//! repeated in the label `rid`), so conservation / exactly-once / routing
//! checks are multiset comparisons of ids plus a canonical rendering of rows.

use arrow::array::Array;
use arrow_array::cast::AsArray;
use arrow_array::{Float64Array, Int64Array, RecordBatch, StringArray, TimestampNanosecondArray};
use arrow_schema::{DataType, Field, Schema, TimeUnit};
use object_store::ObjectStore;
use parquet::arrow::arrow_reader::ParquetRecordBatchReaderBuilder;
use std::collections::BTreeMap;
use std::sync::Arc;

#[derive(Clone, Debug, PartialEq)]
pub struct RowSpec {
    pub id: i64,
    pub ts: i64,
    pub metric: String,
    pub host: Option<String>,
    pub value: f64,
}

#[derive(Clone, Copy, Debug, PartialEq, Eq)]
pub enum SchemaKind {
    /// timestamp Int64, metric_name, id, value_f64
    A,
    /// A + nullable label `host`
    B,
    /// like B but timestamp is Timestamp(ns, UTC)
    T,
}

pub fn make_batch(kind: SchemaKind, rows: &[RowSpec]) -> RecordBatch {
    let ts_field = match kind {
        SchemaKind::T => Field::new("timestamp", DataType::Timestamp(TimeUnit::Nanosecond, Some("UTC".into())), false),
        _ => Field::new("timestamp", DataType::Int64, false),
    };
    let mut fields = vec![
        ts_field,
        Field::new("metric_name", DataType::Utf8, false),
        Field::new("value_i64", DataType::Int64, false),
        Field::new("value_f64", DataType::Float64, true),
    ];
    let ts: Vec<i64> = rows.iter().map(|r| r.ts).collect();
    let ts_arr: Arc<dyn Array> = match kind {
        SchemaKind::T => Arc::new(TimestampNanosecondArray::from(ts).with_timezone("UTC")),
        _ => Arc::new(Int64Array::from(ts)),
    };
    let mut cols: Vec<Arc<dyn Array>> = vec![
        ts_arr,
        Arc::new(StringArray::from(rows.iter().map(|r| r.metric.clone()).collect::<Vec<_>>())),
        Arc::new(Int64Array::from(rows.iter().map(|r| r.id).collect::<Vec<_>>())),
        Arc::new(Float64Array::from(rows.iter().map(|r| r.value).collect::<Vec<_>>())),
    ];
    if kind != SchemaKind::A {
        fields.push(Field::new("host", DataType::Utf8, true));
        cols.push(Arc::new(StringArray::from(rows.iter().map(|r| r.host.clone()).collect::<Vec<_>>())));
    }
    RecordBatch::try_new(Arc::new(Schema::new(fields)), cols).expect("batch")
}

pub fn ids_of(batch: &RecordBatch) -> Vec<i64> {
    match batch.column_by_name("value_i64") {
        Some(c) => match c.as_primitive_opt::<arrow_array::types::Int64Type>() {
            Some(a) => (0..a.len()).map(|i| a.value(i)).collect(),
            None => vec![],
        },
        None => vec![],
    }
}

pub fn timestamps_of(batch: &RecordBatch) -> Vec<i64> {
    match batch.column_by_name("timestamp") {
        Some(c) => {
            if let Some(a) = c.as_primitive_opt::<arrow_array::types::Int64Type>() {
                (0..a.len()).map(|i| a.value(i)).collect()
            } else if let Some(a) = c.as_primitive_opt::<arrow_array::types::TimestampNanosecondType>() {
                (0..a.len()).map(|i| a.value(i)).collect()
            } else {
                vec![]
            }
        }
        None => vec![],
    }
}

pub async fn read_chunk(store: &dyn ObjectStore, path: &str) -> Result<Vec<RecordBatch>, String> {
    let data = store
        .get(&object_store::path::Path::from(path))
        .await
        .map_err(|e| format!("get {}: {}", path, e))?
        .bytes()
        .await
        .map_err(|e| format!("bytes {}: {}", path, e))?;
    let reader = ParquetRecordBatchReaderBuilder::try_new(data)
        .map_err(|e| format!("parquet {}: {}", path, e))?
        .build()
        .map_err(|e| format!("parquet {}: {}", path, e))?;
    reader.collect::<Result<Vec<_>, _>>().map_err(|e| format!("decode {}: {}", path, e))
}

pub async fn read_chunk_ids(store: &dyn ObjectStore, path: &str) -> Result<Vec<i64>, String> {
    Ok(read_chunk(store, path).await?.iter().flat_map(ids_of).collect())
}

/// multiset of ids
pub fn multiset(ids: impl IntoIterator<Item = i64>) -> BTreeMap<i64, u32> {
    let mut m = BTreeMap::new();
    for i in ids {
        *m.entry(i).or_insert(0) += 1;
    }
    m
}

/// Canonical, encoding-independent rendering of one cell (type-tagged; floats by bit pattern).
pub fn cell_string(col: &dyn Array, i: usize) -> String {
    use arrow_array::types::*;
    if col.is_null(i) {
        return "NULL".into();
    }
    match col.data_type() {
        DataType::Int64 => format!("i:{}", col.as_primitive::<Int64Type>().value(i)),
        DataType::Int32 => format!("i:{}", col.as_primitive::<Int32Type>().value(i)),
        DataType::UInt64 => format!("i:{}", col.as_primitive::<UInt64Type>().value(i)),
        DataType::UInt32 => format!("i:{}", col.as_primitive::<UInt32Type>().value(i)),
        DataType::Float64 => {
            let v = col.as_primitive::<Float64Type>().value(i);
            if v.is_nan() {
                "f:NaN".into()
            } else {
                format!("f:{:016x}", (v + 0.0).to_bits())
            }
        }
        DataType::Timestamp(TimeUnit::Nanosecond, _) => format!("i:{}", col.as_primitive::<TimestampNanosecondType>().value(i)),
        DataType::Timestamp(TimeUnit::Microsecond, _) => format!("us:{}", col.as_primitive::<TimestampMicrosecondType>().value(i)),
        DataType::Timestamp(TimeUnit::Millisecond, _) => format!("ms:{}", col.as_primitive::<TimestampMillisecondType>().value(i)),
        DataType::Timestamp(TimeUnit::Second, _) => format!("s:{}", col.as_primitive::<TimestampSecondType>().value(i)),
        DataType::Utf8 => format!("s:{}", col.as_string::<i32>().value(i)),
        DataType::LargeUtf8 => format!("s:{}", col.as_string::<i64>().value(i)),
        DataType::Utf8View => format!("s:{}", col.as_string_view().value(i)),
        DataType::Boolean => format!("b:{}", col.as_boolean().value(i)),
        DataType::Dictionary(_, _) => {
            // decode through a cast to the value type
            match arrow::compute::cast(col, &DataType::Utf8) {
                Ok(c) => cell_string(c.as_ref(), i),
                Err(_) => format!("?:{:?}", col.data_type()),
            }
        }
        other => {
            // fall back to arrow's display
            match arrow::util::display::array_value_to_string(col, i) {
                Ok(s) => format!("{:?}:{}", other, s),
                Err(_) => format!("?:{:?}", other),
            }
        }
    }
}

/// Rows rendered by column NAME (sorted), so column order, batch boundaries and
/// physical encodings never enter a comparison. NULL cells are omitted, so a
/// column absent from some chunks (read as NULL) compares equal to absence.
pub fn canonical_rows(batches: &[RecordBatch]) -> Vec<String> {
    let mut out = vec![];
    for b in batches {
        let schema = b.schema();
        let mut names: Vec<(String, usize)> = schema.fields().iter().enumerate().map(|(i, f)| (f.name().clone(), i)).collect();
        names.sort();
        for r in 0..b.num_rows() {
            let mut s = String::new();
            for (n, ci) in &names {
                let c = cell_string(b.column(*ci).as_ref(), r);
                if c != "NULL" {
                    s.push_str(n);
                    s.push('=');
                    s.push_str(&c);
                    s.push(';');
                }
            }
            out.push(s);
        }
    }
    out.sort();
    out
}

/// Same, keeping row order (for ORDER BY comparisons).
pub fn ordered_rows(batches: &[RecordBatch]) -> Vec<String> {
    let mut out = vec![];
    for b in batches {
        let schema = b.schema();
        let mut names: Vec<(String, usize)> = schema.fields().iter().enumerate().map(|(i, f)| (f.name().clone(), i)).collect();
        names.sort();
        for r in 0..b.num_rows() {
            let mut s = String::new();
            for (n, ci) in &names {
                let c = cell_string(b.column(*ci).as_ref(), r);
                if c != "NULL" {
                    s.push_str(n);
                    s.push('=');
                    s.push_str(&c);
                    s.push(';');
                }
            }
            out.push(s);
        }
    }
    out
}
