fn main() {
    println!("csverif skeleton");
}
