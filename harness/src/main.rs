//! csverif — runtime-monitoring harness for cardinalsin (see /verif/DESIGN.md).
//!
//! usage: csverif <PROPERTY|selftest> [--tier quick|thorough] [--seed N]
//!        (internal) --shard i/n --out <file>

mod checks;
mod clock;
mod outcome;
mod rng;
mod rows;
mod sim;
mod simmeta;
mod util;

use outcome::{Outcome, RunInfo};

pub struct Ctx {
    pub seed: u64,
    pub thorough: bool,
    pub shard: u64,
    pub nshards: u64,
}

impl Ctx {
    pub fn rng(&self, prop: &str, case: u64) -> rng::Rng {
        rng::Rng::derive(self.seed, prop, self.shard, case)
    }
    /// `total` cases split over shards: the cases this shard runs.
    pub fn my_cases(&self, total: u64) -> std::ops::Range<u64> {
        let per = (total + self.nshards - 1) / self.nshards;
        let lo = (self.shard * per).min(total);
        let hi = ((self.shard + 1) * per).min(total);
        lo..hi
    }
}

fn main() {
    let args: Vec<String> = std::env::args().collect();
    if args.len() < 2 {
        eprintln!("usage: csverif <PROPERTY|selftest> [--tier quick|thorough] [--seed N]");
        std::process::exit(2);
    }
    let prop = args[1].clone();
    let mut tier = std::env::var("VERIF_TIER").unwrap_or_else(|_| "quick".into());
    let mut seed: u64 = std::env::var("VERIF_SEED")
        .ok()
        .and_then(|s| s.parse().ok())
        .unwrap_or(1);
    let mut shard: Option<(u64, u64)> = None;
    let mut out_path: Option<String> = None;
    let mut i = 2;
    while i < args.len() {
        match args[i].as_str() {
            "--tier" => {
                tier = args[i + 1].clone();
                i += 1;
            }
            "quick" | "thorough" => tier = args[i].clone(),
            "--seed" => {
                seed = args[i + 1].parse().unwrap_or(1);
                i += 1;
            }
            "--shard" => {
                let mut it = args[i + 1].split('/');
                let a = it.next().and_then(|x| x.parse().ok()).unwrap_or(0);
                let b = it.next().and_then(|x| x.parse().ok()).unwrap_or(1);
                shard = Some((a, b));
                i += 1;
            }
            "--out" => {
                out_path = Some(args[i + 1].clone());
                i += 1;
            }
            _ => {}
        }
        i += 1;
    }
    if tier != "thorough" {
        tier = "quick".into();
    }
    // Shard and worker processes die with the process that started them (a parent stopped by its watchdog or by
    // `timeout` must not leave children spinning): the spawning thread always waits for its child, so the signal
    // cannot come early.
    if shard.is_some() || prop.ends_with("-worker") {
        unsafe {
            libc::prctl(libc::PR_SET_PDEATHSIG, libc::SIGKILL as libc::c_ulong);
            if libc::getppid() == 1 {
                std::process::exit(2);
            }
        }
    }
    let thorough = tier == "thorough";

    if prop == "selftest" {
        match clock::selftest() {
            Ok(()) => {
                println!("selftest ok: clock interposition effective");
                std::process::exit(0)
            }
            Err(e) => {
                println!("selftest FAILED: {e}");
                std::process::exit(2)
            }
        }
    }

    if prop == "C17-worker" {
        util::quiet_panics();
        let (a, b) = shard.unwrap_or((0, 0));
        checks::c17::worker(seed, a, b, &out_path.unwrap_or_default());
        std::process::exit(0);
    }
    if prop == "extreme-worker" {
        util::quiet_panics();
        checks::extreme::worker(seed, &out_path.unwrap_or_else(|| "C07".into()));
        std::process::exit(0);
    }
    if prop == "C19-worker" {
        util::quiet_panics();
        let (a, b) = shard.unwrap_or((0, 0));
        checks::c19::worker(seed, a, b, &out_path.unwrap_or_default());
        std::process::exit(0);
    }
    let spec = match checks::spec(&prop) {
        Some(s) => s,
        None => {
            eprintln!("unknown property {prop}");
            std::process::exit(2);
        }
    };
    sim::install_hooks();
    util::quiet_panics();

    if let Some((s, n)) = shard {
        // child: run one shard, dump the outcome
        let ctx = Ctx {
            seed,
            thorough,
            shard: s,
            nshards: n,
        };
        util::start_watchdog(if thorough { 5400 } else { 900 }, &prop);
        let out = (spec.run)(&ctx);
        let p = out_path.expect("--out");
        std::fs::write(&p, serde_json::to_vec(&out).unwrap()).expect("write outcome");
        std::process::exit(0);
    }

    if args.iter().any(|a| a == "--memcheck-only") {
        // development aid: run only the sanitizer lane and print its counters
        let mut m = Outcome::new(&prop, "");
        memcheck_lane(&prop, seed, spec.memcheck_shards.max(1), &mut m);
        println!("{}", serde_json::to_string_pretty(&m.counters).unwrap());
        for v in &m.violations {
            println!("violated: [{}] {}", v.signature, v.what);
        }
        std::process::exit(0);
    }
    let t0 = clock::real_mono_ns();
    let nshards = if thorough {
        spec.shards_thorough
    } else {
        spec.shards_quick
    };
    let mut merged = Outcome::new(&prop, "");
    merged.exhaustive = true;
    if nshards <= 1 {
        let ctx = Ctx {
            seed,
            thorough,
            shard: 0,
            nshards: 1,
        };
        util::start_watchdog(if thorough { 5400 } else { 900 }, &prop);
        merged.merge((spec.run)(&ctx));
    } else {
        let exe = std::env::current_exe().expect("exe");
        let tmpdir = util::scratch_dir(&format!("{}-outs", prop));
        let mut kids = vec![];
        for s in 0..nshards {
            let outp = format!("{}/shard{}.json", tmpdir, s);
            let child = std::process::Command::new(&exe)
                .arg(&prop)
                .arg("--tier")
                .arg(&tier)
                .arg("--seed")
                .arg(seed.to_string())
                .arg("--shard")
                .arg(format!("{}/{}", s, nshards))
                .arg("--out")
                .arg(&outp)
                .stdout(std::process::Stdio::null())
                .stderr(std::process::Stdio::piped())
                .spawn()
                .expect("spawn shard");
            kids.push((s, outp, child));
        }
        for (s, outp, child) in kids {
            let res = child.wait_with_output();
            match std::fs::read(&outp)
                .ok()
                .and_then(|b| serde_json::from_slice::<Outcome>(&b).ok())
            {
                Some(o) => merged.merge(o),
                None => {
                    let (code, err) = match res {
                        Ok(o) => (
                            format!("{:?}", o.status),
                            String::from_utf8_lossy(&o.stderr)
                                .lines()
                                .rev()
                                .take(6)
                                .collect::<Vec<_>>()
                                .join(" | "),
                        ),
                        Err(e) => (format!("{e}"), String::new()),
                    };
                    merged.inconclusive(&format!("shard {s} produced no outcome ({code}) {err}"));
                }
            }
        }
        let _ = std::fs::remove_dir_all(&tmpdir);
    }
    merged.property = prop.clone();
    // ---- secondary sanitizer lane (thorough tier only): the same binary, a reduced shard of the
    //      quick workload, under valgrind memcheck. A memory error there is a violation of the
    //      property whose workload reached it; it decides nothing by being silent.
    if thorough && spec.memcheck_shards > 0 && std::env::var("CSVERIF_NO_MEMCHECK").is_err() {
        memcheck_lane(&prop, seed, spec.memcheck_shards, &mut merged);
    }
    let wall = (clock::real_mono_ns() - t0) as f64 / 1e9;
    let info = RunInfo {
        tier,
        seed,
        level: spec.level.to_string(),
        wall_s: wall,
        min_evaluations: spec.min_evaluations,
        min_nontrivial: spec.min_nontrivial,
    };
    let code = outcome::finish(&merged, &info);
    std::process::exit(code);
}

fn memcheck_lane(prop: &str, seed: u64, k: u64, merged: &mut Outcome) {
    let exe = std::env::current_exe().expect("exe");
    let dir = util::scratch_dir(&format!("{}-memcheck", prop));
    let log = format!("{}/valgrind.%p.log", dir);
    let outp = format!("{}/outcome.json", dir);
    let t0 = clock::real_mono_ns();
    let child = std::process::Command::new("valgrind")
        .arg("--error-exitcode=97")
        .arg("--trace-children=yes")
        .arg("--num-callers=25")
        .arg(format!("--log-file={}", log))
        .arg(&exe)
        .arg(prop)
        .arg("--tier")
        .arg("quick")
        .arg("--seed")
        .arg(seed.to_string())
        .arg("--shard")
        .arg(format!("0/{}", k))
        .arg("--out")
        .arg(&outp)
        .env("CSVERIF_NO_MEMCHECK", "1")
        .env("CSVERIF_UNDER_VALGRIND", "1")
        .stdout(std::process::Stdio::null())
        .stderr(std::process::Stdio::null())
        .spawn();
    let mut child = match child {
        Ok(c) => c,
        Err(e) => {
            merged.note(&format!("memcheck lane not run: valgrind could not be started ({e})"));
            return;
        }
    };
    // generous wall-clock budget; expiry means "lane inconclusive", never a violation
    let status = loop {
        match child.try_wait() {
            Ok(Some(st)) => break Some(st),
            Ok(None) => {}
            Err(_) => break None,
        }
        if (clock::real_mono_ns() - t0) / 1_000_000_000 > 1500 {
            let _ = child.kill();
            let _ = child.wait();
            break None;
        }
        std::thread::sleep(std::time::Duration::from_millis(300));
    };
    let mut errors = 0u64;
    let mut contexts = 0u64;
    let mut processes = 0u64;
    let mut first_report = String::new();
    if let Ok(rd) = std::fs::read_dir(&dir) {
        for e in rd.flatten() {
            let name = e.file_name().to_string_lossy().to_string();
            if !name.starts_with("valgrind.") {
                continue;
            }
            processes += 1;
            let text = std::fs::read_to_string(e.path()).unwrap_or_default();
            for line in text.lines() {
                if let Some(pos) = line.find("ERROR SUMMARY:") {
                    let nums: Vec<u64> = line[pos..].split_whitespace().filter_map(|w| w.parse().ok()).collect();
                    if nums.len() >= 2 {
                        errors += nums[0];
                        contexts += nums[1];
                    }
                }
            }
            if first_report.is_empty() && (text.contains(" Invalid ") || text.contains("uninitialised")) {
                first_report = text.lines().filter(|l| !l.contains("ERROR SUMMARY")).take(40).collect::<Vec<_>>().join("\n");
            }
        }
    }
    let evals = std::fs::read(&outp).ok().and_then(|b| serde_json::from_slice::<Outcome>(&b).ok()).map(|o| o.evaluations).unwrap_or(0);
    merged.count("memcheck.processes_under_valgrind", processes);
    merged.count("memcheck.evaluations_under_valgrind", evals);
    merged.count("memcheck.errors", errors);
    merged.count("memcheck.error_contexts", contexts);
    merged.count("memcheck.wall_s", ((clock::real_mono_ns() - t0) / 1_000_000_000) as u64);
    match status {
        None => merged.note("memcheck lane: wall-clock budget (25 min) expired; lane inconclusive, not a verdict"),
        Some(st) => {
            if errors > 0 || st.code() == Some(97) {
                merged.violation(
                    &format!("{}/memcheck/memory-error", prop),
                    &format!("valgrind memcheck reported {} error(s) from {} context(s) while running this property's workload", errors, contexts),
                    serde_json::json!({"seed": seed, "shard": format!("0/{}", k), "first_report": first_report}),
                );
            }
        }
    }
    let _ = std::fs::remove_dir_all(&dir);
}
