//! csverif — runtime-monitoring harness for cardinalsin (see /verif/DESIGN.md).
//!
//! usage: csverif <PROPERTY|selftest> [--tier quick|thorough] [--seed N]
//!        (internal) --shard i/n --out <file>

mod checks;
mod clock;
mod outcome;
mod rng;
mod rows;
mod sim;
mod simmeta;
mod util;

use outcome::{Outcome, RunInfo};

pub struct Ctx {
    pub seed: u64,
    pub thorough: bool,
    pub shard: u64,
    pub nshards: u64,
}

impl Ctx {
    pub fn rng(&self, prop: &str, case: u64) -> rng::Rng {
        rng::Rng::derive(self.seed, prop, self.shard, case)
    }
    /// `total` cases split over shards: the cases this shard runs.
    pub fn my_cases(&self, total: u64) -> std::ops::Range<u64> {
        let per = (total + self.nshards - 1) / self.nshards;
        let lo = (self.shard * per).min(total);
        let hi = ((self.shard + 1) * per).min(total);
        lo..hi
    }
}

fn main() {
    let args: Vec<String> = std::env::args().collect();
    if args.len() < 2 {
        eprintln!("usage: csverif <PROPERTY|selftest> [--tier quick|thorough] [--seed N]");
        std::process::exit(2);
    }
    let prop = args[1].clone();
    let mut tier = std::env::var("VERIF_TIER").unwrap_or_else(|_| "quick".into());
    let mut seed: u64 = std::env::var("VERIF_SEED")
        .ok()
        .and_then(|s| s.parse().ok())
        .unwrap_or(1);
    let mut shard: Option<(u64, u64)> = None;
    let mut out_path: Option<String> = None;
    let mut i = 2;
    while i < args.len() {
        match args[i].as_str() {
            "--tier" => {
                tier = args[i + 1].clone();
                i += 1;
            }
            "quick" | "thorough" => tier = args[i].clone(),
            "--seed" => {
                seed = args[i + 1].parse().unwrap_or(1);
                i += 1;
            }
            "--shard" => {
                let mut it = args[i + 1].split('/');
                let a = it.next().and_then(|x| x.parse().ok()).unwrap_or(0);
                let b = it.next().and_then(|x| x.parse().ok()).unwrap_or(1);
                shard = Some((a, b));
                i += 1;
            }
            "--out" => {
                out_path = Some(args[i + 1].clone());
                i += 1;
            }
            _ => {}
        }
        i += 1;
    }
    if tier != "thorough" {
        tier = "quick".into();
    }
    let thorough = tier == "thorough";

    if prop == "selftest" {
        match clock::selftest() {
            Ok(()) => {
                println!("selftest ok: clock interposition effective");
                std::process::exit(0)
            }
            Err(e) => {
                println!("selftest FAILED: {e}");
                std::process::exit(2)
            }
        }
    }

    if prop == "C17-worker" {
        util::quiet_panics();
        let (a, b) = shard.unwrap_or((0, 0));
        checks::c17::worker(seed, a, b, &out_path.unwrap_or_default());
        std::process::exit(0);
    }
    if prop == "C19-worker" {
        util::quiet_panics();
        let (a, b) = shard.unwrap_or((0, 0));
        checks::c19::worker(seed, a, b, &out_path.unwrap_or_default());
        std::process::exit(0);
    }
    let spec = match checks::spec(&prop) {
        Some(s) => s,
        None => {
            eprintln!("unknown property {prop}");
            std::process::exit(2);
        }
    };
    sim::install_hooks();
    util::quiet_panics();

    if let Some((s, n)) = shard {
        // child: run one shard, dump the outcome
        let ctx = Ctx {
            seed,
            thorough,
            shard: s,
            nshards: n,
        };
        util::start_watchdog(if thorough { 5400 } else { 900 }, &prop);
        let out = (spec.run)(&ctx);
        let p = out_path.expect("--out");
        std::fs::write(&p, serde_json::to_vec(&out).unwrap()).expect("write outcome");
        std::process::exit(0);
    }

    let t0 = clock::real_mono_ns();
    let nshards = if thorough {
        spec.shards_thorough
    } else {
        spec.shards_quick
    };
    let mut merged = Outcome::new(&prop, "");
    merged.exhaustive = true;
    if nshards <= 1 {
        let ctx = Ctx {
            seed,
            thorough,
            shard: 0,
            nshards: 1,
        };
        util::start_watchdog(if thorough { 5400 } else { 900 }, &prop);
        merged.merge((spec.run)(&ctx));
    } else {
        let exe = std::env::current_exe().expect("exe");
        let tmpdir = util::scratch_dir(&format!("{}-outs", prop));
        let mut kids = vec![];
        for s in 0..nshards {
            let outp = format!("{}/shard{}.json", tmpdir, s);
            let child = std::process::Command::new(&exe)
                .arg(&prop)
                .arg("--tier")
                .arg(&tier)
                .arg("--seed")
                .arg(seed.to_string())
                .arg("--shard")
                .arg(format!("{}/{}", s, nshards))
                .arg("--out")
                .arg(&outp)
                .stdout(std::process::Stdio::null())
                .stderr(std::process::Stdio::piped())
                .spawn()
                .expect("spawn shard");
            kids.push((s, outp, child));
        }
        for (s, outp, child) in kids {
            let res = child.wait_with_output();
            match std::fs::read(&outp)
                .ok()
                .and_then(|b| serde_json::from_slice::<Outcome>(&b).ok())
            {
                Some(o) => merged.merge(o),
                None => {
                    let (code, err) = match res {
                        Ok(o) => (
                            format!("{:?}", o.status),
                            String::from_utf8_lossy(&o.stderr)
                                .lines()
                                .rev()
                                .take(6)
                                .collect::<Vec<_>>()
                                .join(" | "),
                        ),
                        Err(e) => (format!("{e}"), String::new()),
                    };
                    merged.inconclusive(&format!("shard {s} produced no outcome ({code}) {err}"));
                }
            }
        }
        let _ = std::fs::remove_dir_all(&tmpdir);
    }
    merged.property = prop.clone();
    let wall = (clock::real_mono_ns() - t0) as f64 / 1e9;
    let info = RunInfo {
        tier,
        seed,
        level: spec.level.to_string(),
        wall_s: wall,
        min_evaluations: spec.min_evaluations,
        min_nontrivial: spec.min_nontrivial,
    };
    let code = outcome::finish(&merged, &info);
    std::process::exit(code);
}
