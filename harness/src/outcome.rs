//! Verdicts, evidence files, known-findings matching and shard merging.
//!
//! A check accumulates an `Outcome`. Sharded runs serialise one Outcome per
//! child process; the parent merges them, matches violations against
//! /verif/known_findings.json and writes /verif/evidence/<id>.json.

use serde::{Deserialize, Serialize};
use serde_json::{json, Value};
use std::collections::{BTreeMap, BTreeSet};

pub const VERIF_DIR: &str = "/verif";

/// Evidence and replay files go to /verif unless CSVERIF_OUT_DIR redirects them
/// (used for background experiments that must not touch the committed evidence).
fn out_dir() -> String {
    std::env::var("CSVERIF_OUT_DIR").unwrap_or_else(|_| VERIF_DIR.to_string())
}

#[derive(Serialize, Deserialize, Clone, Debug)]
pub struct Violation {
    /// Narrow machine-readable signature used for known-finding matching,
    /// e.g. "C15/read/equals-physical-table". Never just the property id.
    pub signature: String,
    /// One-line human description.
    pub what: String,
    /// Everything needed to understand / replay the witness.
    pub witness: Value,
}

#[derive(Serialize, Deserialize, Clone, Debug, Default)]
pub struct Outcome {
    pub property: String,
    pub evaluations: u64,
    /// hashes of the distinct non-trivial cases
    pub nontrivial: BTreeSet<u64>,
    pub rule: String,
    pub samples: Vec<Value>,
    pub counters: BTreeMap<String, u64>,
    pub violations: Vec<Violation>,
    pub inconclusive: Vec<String>,
    pub assumptions: Vec<String>,
    pub notes: Vec<String>,
    pub exhaustive: bool,
}

impl Outcome {
    pub fn new(property: &str, rule: &str) -> Self {
        Outcome {
            property: property.to_string(),
            rule: rule.to_string(),
            ..Default::default()
        }
    }
    pub fn count(&mut self, key: &str, n: u64) {
        *self.counters.entry(key.to_string()).or_insert(0) += n;
    }
    pub fn max(&mut self, key: &str, n: u64) {
        let e = self.counters.entry(key.to_string()).or_insert(0);
        if n > *e {
            *e = n;
        }
    }
    pub fn eval(&mut self) {
        self.evaluations += 1;
    }
    pub fn nontrivial(&mut self, h: u64) {
        self.nontrivial.insert(h);
    }
    pub fn sample(&mut self, v: Value) {
        if self.samples.len() < 6 {
            self.samples.push(v);
        }
    }
    pub fn violation(&mut self, signature: &str, what: &str, witness: Value) {
        // keep the first few witnesses per signature, count the rest
        let same = self
            .violations
            .iter()
            .filter(|v| v.signature == signature)
            .count();
        self.count(&format!("violations[{}]", signature), 1);
        if same < 3 {
            self.violations.push(Violation {
                signature: signature.to_string(),
                what: what.to_string(),
                witness,
            });
        }
    }
    pub fn inconclusive(&mut self, reason: &str) {
        if self.inconclusive.len() < 20 {
            self.inconclusive.push(reason.to_string());
        }
    }
    pub fn assume(&mut self, s: &str) {
        if !self.assumptions.iter().any(|a| a == s) {
            self.assumptions.push(s.to_string());
        }
    }
    pub fn note(&mut self, s: &str) {
        if self.notes.len() < 40 && !self.notes.iter().any(|a| a == s) {
            self.notes.push(s.to_string());
        }
    }
    pub fn merge(&mut self, other: Outcome) {
        self.evaluations += other.evaluations;
        self.nontrivial.extend(other.nontrivial);
        for s in other.samples {
            self.sample(s);
        }
        for (k, v) in other.counters {
            if k.starts_with("max:") {
                self.max(&k, v);
            } else {
                self.count(&k, v);
            }
        }
        for v in other.violations {
            let same = self
                .violations
                .iter()
                .filter(|x| x.signature == v.signature)
                .count();
            if same < 3 {
                self.violations.push(v);
            }
        }
        for i in other.inconclusive {
            self.inconclusive(&i);
        }
        for a in other.assumptions {
            self.assume(&a);
        }
        for n in other.notes {
            self.note(&n);
        }
        if self.rule.is_empty() {
            self.rule = other.rule;
        }
        self.exhaustive = self.exhaustive && other.exhaustive;
    }
}

#[derive(Deserialize, Debug, Clone)]
pub struct KnownFinding {
    pub property: String,
    /// "known" entries suppress a matching violation; "fixed" entries
    /// suppress nothing (they only document a repaired defect).
    pub status: String,
    /// Exact violation signature this entry covers.
    pub signature: String,
    pub what: String,
    #[serde(default)]
    pub commit: Option<String>,
}

pub fn load_known_findings() -> Vec<KnownFinding> {
    let p = format!("{}/known_findings.json", VERIF_DIR);
    match std::fs::read(&p) {
        Ok(b) => serde_json::from_slice::<Vec<KnownFinding>>(&b).unwrap_or_else(|e| {
            eprintln!("known_findings.json unreadable: {e}");
            vec![]
        }),
        Err(_) => vec![],
    }
}

pub struct RunInfo {
    pub tier: String,
    pub seed: u64,
    pub level: String,
    pub wall_s: f64,
    /// observation floor: the run is inconclusive below these
    pub min_evaluations: u64,
    pub min_nontrivial: u64,
}

/// Final step of a (parent) run: known-finding matching, evidence, verdict.
/// Returns the process exit code.
pub fn finish(out: &Outcome, info: &RunInfo) -> i32 {
    let known = load_known_findings();
    let mut new_violations: Vec<&Violation> = vec![];
    let mut known_hits: BTreeMap<String, (String, u64)> = BTreeMap::new();
    for v in &out.violations {
        if let Some(k) = known.iter().find(|k| {
            k.status == "known" && k.property == out.property && k.signature == v.signature
        }) {
            let n = out
                .counters
                .get(&format!("violations[{}]", v.signature))
                .copied()
                .unwrap_or(1);
            known_hits.insert(k.signature.clone(), (k.what.clone(), n));
        } else {
            new_violations.push(v);
        }
    }

    let mut inconclusive = out.inconclusive.clone();
    if new_violations.is_empty() {
        if out.evaluations < info.min_evaluations {
            inconclusive.push(format!(
                "observation floor: {} evaluations < {}",
                out.evaluations, info.min_evaluations
            ));
        }
        if (out.nontrivial.len() as u64) < info.min_nontrivial {
            inconclusive.push(format!(
                "observation floor: {} distinct non-trivial cases < {}",
                out.nontrivial.len(),
                info.min_nontrivial
            ));
        }
    }

    // replay files for new violations
    let mut replay_paths = vec![];
    if !new_violations.is_empty() {
        let dir = format!("{}/replays", out_dir());
        let _ = std::fs::create_dir_all(&dir);
        for (i, v) in new_violations.iter().enumerate() {
            let p = format!(
                "{}/{}-{}-seed{}-{}.json",
                dir, out.property, info.tier, info.seed, i
            );
            let body = json!({
                "property": out.property,
                "tier": info.tier,
                "seed": info.seed,
                "signature": v.signature,
                "what": v.what,
                "witness": v.witness,
            });
            let _ = std::fs::write(&p, serde_json::to_vec_pretty(&body).unwrap());
            replay_paths.push(p);
        }
    }

    // evidence
    let mut coverage = serde_json::Map::new();
    coverage.insert("evaluations".into(), json!(out.evaluations));
    coverage.insert("distinct_nontrivial".into(), json!(out.nontrivial.len()));
    coverage.insert("rule".into(), json!(out.rule));
    coverage.insert("samples".into(), json!(out.samples));
    coverage.insert("exhaustive".into(), json!(out.exhaustive));
    coverage.insert("observations".into(), json!(out.counters));
    coverage.insert(
        "known_findings_hit".into(),
        json!(known_hits
            .iter()
            .map(|(k, (w, n))| json!({"signature": k, "what": w, "occurrences": n}))
            .collect::<Vec<_>>()),
    );
    coverage.insert(
        "verdict".into(),
        json!(if !new_violations.is_empty() {
            "violated"
        } else if !inconclusive.is_empty() {
            "inconclusive"
        } else {
            "held on what was observed"
        }),
    );
    if !inconclusive.is_empty() {
        coverage.insert("inconclusive_reasons".into(), json!(inconclusive));
    }
    if !out.notes.is_empty() {
        coverage.insert("notes".into(), json!(out.notes));
    }
    let ev = json!({
        "property_id": out.property,
        "tier": info.tier,
        "seed": info.seed,
        "level": info.level,
        "coverage": Value::Object(coverage),
        "assumptions": out.assumptions,
        "wall_s": (info.wall_s * 100.0).round() / 100.0,
        "violations": new_violations.len(),
    });
    let edir = format!("{}/evidence", out_dir());
    let _ = std::fs::create_dir_all(&edir);
    let epath = format!("{}/{}.json", edir, out.property);
    if let Err(e) = std::fs::write(&epath, serde_json::to_vec_pretty(&ev).unwrap()) {
        eprintln!("cannot write evidence {epath}: {e}");
    }

    // stdout report
    println!(
        "{} tier={} seed={} evaluations={} distinct_nontrivial={} wall={:.1}s",
        out.property,
        info.tier,
        info.seed,
        out.evaluations,
        out.nontrivial.len(),
        info.wall_s
    );
    for (k, v) in &out.counters {
        println!("  obs {k} = {v}");
    }
    for (sig, (what, n)) in &known_hits {
        println!(
            "KNOWN-FINDING: property={} {} [{}; {} occurrence(s) this run]",
            out.property, what, sig, n
        );
    }
    if !new_violations.is_empty() {
        for (v, p) in new_violations.iter().zip(replay_paths.iter()) {
            println!("  violated: [{}] {}", v.signature, v.what);
            println!("VIOLATION property={} replay={}", out.property, p);
        }
        return 1;
    }
    if !inconclusive.is_empty() {
        for r in &inconclusive {
            println!("INCONCLUSIVE property={} reason={}", out.property, r);
        }
        return 2;
    }
    println!("HELD property={} (on what was observed)", out.property);
    0
}
