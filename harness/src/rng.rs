//! One deterministic random stream (splitmix64) per (seed, property, shard, case).

#[derive(Clone, Debug)]
pub struct Rng(pub u64);

fn mix(mut z: u64) -> u64 {
    z = (z ^ (z >> 30)).wrapping_mul(0xbf58476d1ce4e5b9);
    z = (z ^ (z >> 27)).wrapping_mul(0x94d049bb133111eb);
    z ^ (z >> 31)
}

pub fn hash_str(s: &str) -> u64 {
    let mut h = 0xcbf29ce484222325u64;
    for b in s.bytes() {
        h ^= b as u64;
        h = h.wrapping_mul(0x100000001b3);
    }
    mix(h)
}

pub fn hash_bytes(s: &[u8]) -> u64 {
    let mut h = 0xcbf29ce484222325u64;
    for b in s {
        h ^= *b as u64;
        h = h.wrapping_mul(0x100000001b3);
    }
    mix(h)
}

impl Rng {
    pub fn new(seed: u64) -> Self {
        Rng(mix(seed ^ 0x9e3779b97f4a7c15))
    }
    /// Derive an independent stream for (property, shard, case).
    pub fn derive(seed: u64, prop: &str, shard: u64, case: u64) -> Self {
        let mut s = mix(seed.wrapping_add(0x9e3779b97f4a7c15));
        s = mix(s ^ hash_str(prop));
        s = mix(s ^ shard.wrapping_mul(0xd6e8feb86659fd93));
        s = mix(s ^ case.wrapping_mul(0xa0761d6478bd642f));
        Rng(s)
    }
    pub fn fork(&mut self, tag: u64) -> Rng {
        Rng(mix(self.next_u64() ^ tag.wrapping_mul(0x9e3779b97f4a7c15)))
    }
    pub fn next_u64(&mut self) -> u64 {
        self.0 = self.0.wrapping_add(0x9e3779b97f4a7c15);
        mix(self.0)
    }
    /// uniform in [0, n)
    pub fn below(&mut self, n: u64) -> u64 {
        if n <= 1 {
            0
        } else {
            self.next_u64() % n
        }
    }
    pub fn usize(&mut self, n: usize) -> usize {
        self.below(n as u64) as usize
    }
    /// uniform in [lo, hi] inclusive
    pub fn range(&mut self, lo: i64, hi: i64) -> i64 {
        if hi <= lo {
            return lo;
        }
        let span = (hi as i128 - lo as i128 + 1) as u128;
        let r = (self.next_u64() as u128) % span;
        (lo as i128 + r as i128) as i64
    }
    pub fn chance(&mut self, num: u64, den: u64) -> bool {
        self.below(den) < num
    }
    pub fn pick<'a, T>(&mut self, xs: &'a [T]) -> &'a T {
        &xs[self.usize(xs.len())]
    }
    pub fn shuffle<T>(&mut self, xs: &mut [T]) {
        for i in (1..xs.len()).rev() {
            let j = self.usize(i + 1);
            xs.swap(i, j);
        }
    }
    pub fn f64(&mut self) -> f64 {
        (self.next_u64() >> 11) as f64 / (1u64 << 53) as f64
    }
}
