//! Small shared helpers: scratch directories, watchdog, panic capture.

use std::sync::atomic::{AtomicU64, Ordering};

static COUNTER: AtomicU64 = AtomicU64::new(0);

/// Per-run scratch directory under the harness target dir (never /tmp).
pub fn scratch_dir(tag: &str) -> String {
    let n = COUNTER.fetch_add(1, Ordering::Relaxed);
    let p = format!(
        "/verif/harness/target/tmp/{}-{}-{}",
        tag,
        std::process::id(),
        n
    );
    let _ = std::fs::remove_dir_all(&p);
    std::fs::create_dir_all(&p).expect("scratch dir");
    p
}

pub fn remove_dir(p: &str) {
    let _ = std::fs::remove_dir_all(p);
}

/// Wall-clock watchdog on the real monotonic clock. Its firing is
/// INCONCLUSIVE (exit 2), never a violation.
pub fn start_watchdog(secs: u64, prop: &str) {
    let prop = prop.to_string();
    std::thread::spawn(move || {
        let t0 = crate::clock::real_mono_ns();
        loop {
            std::thread::sleep(std::time::Duration::from_millis(500));
            if (crate::clock::real_mono_ns() - t0) / 1_000_000_000 > secs as i64 {
                println!(
                    "INCONCLUSIVE property={} reason=wall-clock watchdog ({}s) expired",
                    prop, secs
                );
                std::process::exit(2);
            }
        }
    });
}

/// Keep panics inside the code under test from spamming stderr; they are
/// observed through catch_unwind / JoinError where they matter.
pub fn quiet_panics() {
    if std::env::var("CSVERIF_PANIC_TRACE").is_err() {
        std::panic::set_hook(Box::new(|_| {}));
    }
}

pub fn copy_dir(from: &str, to: &str) -> std::io::Result<()> {
    std::fs::create_dir_all(to)?;
    for e in std::fs::read_dir(from)? {
        let e = e?;
        let p = e.path();
        let t = std::path::Path::new(to).join(e.file_name());
        if p.is_dir() {
            copy_dir(p.to_str().unwrap(), t.to_str().unwrap())?;
        } else {
            std::fs::copy(&p, &t)?;
        }
    }
    Ok(())
}

// ---------------------------------------------------------------------------
// SlowStore: a delegating object store whose uploads take a while (real time).
// A slow store is ordinary operation, not a fault: every request succeeds.

use async_trait::async_trait;
use futures::stream::BoxStream;
use object_store::{
    path::Path as OPath, GetOptions, GetResult, ListResult, MultipartUpload, ObjectMeta, ObjectStore, PutMultipartOpts, PutOptions, PutPayload,
    PutResult,
};

#[derive(Debug)]
pub struct SlowStore {
    pub inner: std::sync::Arc<dyn ObjectStore>,
    pub put_delay: std::time::Duration,
}

impl std::fmt::Display for SlowStore {
    fn fmt(&self, f: &mut std::fmt::Formatter<'_>) -> std::fmt::Result {
        write!(f, "SlowStore({:?})", self.put_delay)
    }
}

#[async_trait]
impl ObjectStore for SlowStore {
    async fn put_opts(&self, location: &OPath, payload: PutPayload, opts: PutOptions) -> object_store::Result<PutResult> {
        tokio::time::sleep(self.put_delay).await;
        self.inner.put_opts(location, payload, opts).await
    }
    async fn put_multipart_opts(&self, location: &OPath, opts: PutMultipartOpts) -> object_store::Result<Box<dyn MultipartUpload>> {
        self.inner.put_multipart_opts(location, opts).await
    }
    async fn get_opts(&self, location: &OPath, options: GetOptions) -> object_store::Result<GetResult> {
        self.inner.get_opts(location, options).await
    }
    async fn delete(&self, location: &OPath) -> object_store::Result<()> {
        self.inner.delete(location).await
    }
    fn list(&self, prefix: Option<&OPath>) -> BoxStream<'_, object_store::Result<ObjectMeta>> {
        self.inner.list(prefix)
    }
    async fn list_with_delimiter(&self, prefix: Option<&OPath>) -> object_store::Result<ListResult> {
        self.inner.list_with_delimiter(prefix).await
    }
    async fn copy(&self, from: &OPath, to: &OPath) -> object_store::Result<()> {
        self.inner.copy(from, to).await
    }
    async fn copy_if_not_exists(&self, from: &OPath, to: &OPath) -> object_store::Result<()> {
        self.inner.copy_if_not_exists(from, to).await
    }
}

// ---------------------------------------------------------------------------
// FailSwitchStore: every write fails while the switch is on (a catalog that cannot be written
// for a while); reads and everything else pass through.

#[derive(Debug)]
pub struct FailSwitchStore {
    pub inner: std::sync::Arc<dyn ObjectStore>,
    pub failing: std::sync::atomic::AtomicBool,
    pub failed: std::sync::atomic::AtomicU64,
}

impl std::fmt::Display for FailSwitchStore {
    fn fmt(&self, f: &mut std::fmt::Formatter<'_>) -> std::fmt::Result {
        write!(f, "FailSwitchStore")
    }
}

#[async_trait]
impl ObjectStore for FailSwitchStore {
    async fn put_opts(&self, location: &OPath, payload: PutPayload, opts: PutOptions) -> object_store::Result<PutResult> {
        if self.failing.load(std::sync::atomic::Ordering::SeqCst) {
            self.failed.fetch_add(1, std::sync::atomic::Ordering::SeqCst);
            return Err(object_store::Error::Generic { store: "FailSwitchStore", source: "injected: the catalog store refuses writes".into() });
        }
        self.inner.put_opts(location, payload, opts).await
    }
    async fn put_multipart_opts(&self, location: &OPath, opts: PutMultipartOpts) -> object_store::Result<Box<dyn MultipartUpload>> {
        self.inner.put_multipart_opts(location, opts).await
    }
    async fn get_opts(&self, location: &OPath, options: GetOptions) -> object_store::Result<GetResult> {
        self.inner.get_opts(location, options).await
    }
    async fn delete(&self, location: &OPath) -> object_store::Result<()> {
        self.inner.delete(location).await
    }
    fn list(&self, prefix: Option<&OPath>) -> BoxStream<'_, object_store::Result<ObjectMeta>> {
        self.inner.list(prefix)
    }
    async fn list_with_delimiter(&self, prefix: Option<&OPath>) -> object_store::Result<ListResult> {
        self.inner.list_with_delimiter(prefix).await
    }
    async fn copy(&self, from: &OPath, to: &OPath) -> object_store::Result<()> {
        self.inner.copy(from, to).await
    }
    async fn copy_if_not_exists(&self, from: &OPath, to: &OPath) -> object_store::Result<()> {
        self.inner.copy_if_not_exists(from, to).await
    }
}

// ---------------------------------------------------------------------------
// RaceLoserStore: every `every`-th conditional update finds that somebody else wrote the object
// in the meantime (the same bytes under a new tag - the smallest competing write there is), so
// the caller's compare-and-swap loses and has to be repeated.

#[derive(Debug)]
pub struct RaceLoserStore {
    pub inner: std::sync::Arc<dyn ObjectStore>,
    pub every: u64,
    pub counter: std::sync::atomic::AtomicU64,
    pub lost: std::sync::atomic::AtomicU64,
}

impl std::fmt::Display for RaceLoserStore {
    fn fmt(&self, f: &mut std::fmt::Formatter<'_>) -> std::fmt::Result {
        write!(f, "RaceLoserStore(every {})", self.every)
    }
}

#[async_trait]
impl ObjectStore for RaceLoserStore {
    async fn put_opts(&self, location: &OPath, payload: PutPayload, opts: PutOptions) -> object_store::Result<PutResult> {
        if matches!(opts.mode, object_store::PutMode::Update(_)) && self.every > 0 {
            let n = self.counter.fetch_add(1, std::sync::atomic::Ordering::SeqCst);
            if n % self.every == self.every - 1 {
                if let Ok(g) = self.inner.get(location).await {
                    if let Ok(b) = g.bytes().await {
                        let _ = self.inner.put(location, b.into()).await;
                        self.lost.fetch_add(1, std::sync::atomic::Ordering::SeqCst);
                    }
                }
            }
        }
        self.inner.put_opts(location, payload, opts).await
    }
    async fn put_multipart_opts(&self, location: &OPath, opts: PutMultipartOpts) -> object_store::Result<Box<dyn MultipartUpload>> {
        self.inner.put_multipart_opts(location, opts).await
    }
    async fn get_opts(&self, location: &OPath, options: GetOptions) -> object_store::Result<GetResult> {
        self.inner.get_opts(location, options).await
    }
    async fn delete(&self, location: &OPath) -> object_store::Result<()> {
        self.inner.delete(location).await
    }
    fn list(&self, prefix: Option<&OPath>) -> BoxStream<'_, object_store::Result<ObjectMeta>> {
        self.inner.list(prefix)
    }
    async fn list_with_delimiter(&self, prefix: Option<&OPath>) -> object_store::Result<ListResult> {
        self.inner.list_with_delimiter(prefix).await
    }
    async fn copy(&self, from: &OPath, to: &OPath) -> object_store::Result<()> {
        self.inner.copy(from, to).await
    }
    async fn copy_if_not_exists(&self, from: &OPath, to: &OPath) -> object_store::Result<()> {
        self.inner.copy_if_not_exists(from, to).await
    }
}

// ---------------------------------------------------------------------------
// FlakyBodyStore: whole-object downloads arrive in pieces, and every `every`-th one is cut
// after some bytes with an error in the body stream (the request itself succeeded).

#[derive(Debug)]
pub struct FlakyBodyStore {
    pub inner: std::sync::Arc<dyn ObjectStore>,
    pub every: u64,
    pub counter: std::sync::atomic::AtomicU64,
    pub cuts: std::sync::atomic::AtomicU64,
}

impl std::fmt::Display for FlakyBodyStore {
    fn fmt(&self, f: &mut std::fmt::Formatter<'_>) -> std::fmt::Result {
        write!(f, "FlakyBodyStore(every {})", self.every)
    }
}

#[async_trait]
impl ObjectStore for FlakyBodyStore {
    async fn put_opts(&self, location: &OPath, payload: PutPayload, opts: PutOptions) -> object_store::Result<PutResult> {
        self.inner.put_opts(location, payload, opts).await
    }
    async fn put_multipart_opts(&self, location: &OPath, opts: PutMultipartOpts) -> object_store::Result<Box<dyn MultipartUpload>> {
        self.inner.put_multipart_opts(location, opts).await
    }
    async fn get_opts(&self, location: &OPath, options: GetOptions) -> object_store::Result<GetResult> {
        let whole = options.range.is_none() && !options.head;
        let r = self.inner.get_opts(location, options).await?;
        if !whole {
            return Ok(r);
        }
        let n = self.counter.fetch_add(1, std::sync::atomic::Ordering::Relaxed);
        let cut = self.every > 0 && n % self.every == self.every - 1;
        let meta = r.meta.clone();
        let range = r.range.clone();
        let attributes = r.attributes.clone();
        let bytes = r.bytes().await?;
        // pieces of 1 KiB; a cut download delivers about half of them, then an error
        let mut pieces: Vec<object_store::Result<bytes::Bytes>> = bytes.chunks(1024).map(|c| Ok(bytes::Bytes::copy_from_slice(c))).collect();
        if cut && pieces.len() >= 2 {
            self.cuts.fetch_add(1, std::sync::atomic::Ordering::Relaxed);
            pieces.truncate(pieces.len() / 2);
            pieces.push(Err(object_store::Error::Generic { store: "FlakyBodyStore", source: "connection reset in the middle of the body".into() }));
        }
        Ok(GetResult { payload: object_store::GetResultPayload::Stream(Box::pin(futures::stream::iter(pieces))), meta, range, attributes })
    }
    async fn delete(&self, location: &OPath) -> object_store::Result<()> {
        self.inner.delete(location).await
    }
    fn list(&self, prefix: Option<&OPath>) -> BoxStream<'_, object_store::Result<ObjectMeta>> {
        self.inner.list(prefix)
    }
    async fn list_with_delimiter(&self, prefix: Option<&OPath>) -> object_store::Result<ListResult> {
        self.inner.list_with_delimiter(prefix).await
    }
    async fn copy(&self, from: &OPath, to: &OPath) -> object_store::Result<()> {
        self.inner.copy(from, to).await
    }
    async fn copy_if_not_exists(&self, from: &OPath, to: &OPath) -> object_store::Result<()> {
        self.inner.copy_if_not_exists(from, to).await
    }
}
