//! Small shared helpers: scratch directories, watchdog, panic capture.

use std::sync::atomic::{AtomicU64, Ordering};

static COUNTER: AtomicU64 = AtomicU64::new(0);

/// Per-run scratch directory under the harness target dir (never /tmp).
pub fn scratch_dir(tag: &str) -> String {
    let n = COUNTER.fetch_add(1, Ordering::Relaxed);
    let p = format!(
        "/verif/harness/target/tmp/{}-{}-{}",
        tag,
        std::process::id(),
        n
    );
    let _ = std::fs::remove_dir_all(&p);
    std::fs::create_dir_all(&p).expect("scratch dir");
    p
}

pub fn remove_dir(p: &str) {
    let _ = std::fs::remove_dir_all(p);
}

/// Wall-clock watchdog on the real monotonic clock. Its firing is
/// INCONCLUSIVE (exit 2), never a violation.
pub fn start_watchdog(secs: u64, prop: &str) {
    let prop = prop.to_string();
    std::thread::spawn(move || {
        let t0 = crate::clock::real_mono_ns();
        loop {
            std::thread::sleep(std::time::Duration::from_millis(500));
            if (crate::clock::real_mono_ns() - t0) / 1_000_000_000 > secs as i64 {
                println!(
                    "INCONCLUSIVE property={} reason=wall-clock watchdog ({}s) expired",
                    prop, secs
                );
                std::process::exit(2);
            }
        }
    });
}

/// Keep panics inside the code under test from spamming stderr; they are
/// observed through catch_unwind / JoinError where they matter.
pub fn quiet_panics() {
    if std::env::var("CSVERIF_PANIC_TRACE").is_err() {
        std::panic::set_hook(Box::new(|_| {}));
    }
}

pub fn copy_dir(from: &str, to: &str) -> std::io::Result<()> {
    std::fs::create_dir_all(to)?;
    for e in std::fs::read_dir(from)? {
        let e = e?;
        let p = e.path();
        let t = std::path::Path::new(to).join(e.file_name());
        if p.is_dir() {
            copy_dir(p.to_str().unwrap(), t.to_str().unwrap())?;
        } else {
            std::fs::copy(&p, &t)?;
        }
    }
    Ok(())
}
