//! RecordingMeta — a `MetadataClient` decorator that delegates to the real
//! client and records call / return of every operation at the client boundary
//! (arguments and results), optionally parks the call on the scheduler gate
//! (call-granularity interleaving for LocalMetadataClient, whose operations
//! contain no await) and can fail a call before or after its effect.

use crate::sim::{Ctl, FaultMode, Release};
use async_trait::async_trait;
use cardinalsin::ingester::ChunkMetadata;
use cardinalsin::metadata::{
    ColumnPredicate, CompactionJob, CompactionLease, CompactionLeases, CompactionStatus, MetadataClient, SplitState,
    TimeIndexEntry, TimeRange,
};
use cardinalsin::sharding::{ShardMetadata, SplitPhase};
use cardinalsin::{Error, Result};
use std::sync::Arc;

pub struct RecMeta {
    pub inner: Arc<dyn MetadataClient>,
    pub ctl: Arc<Ctl>,
    pub actor: String,
}

impl RecMeta {
    pub fn new(inner: Arc<dyn MetadataClient>, ctl: Arc<Ctl>, actor: &str) -> Arc<RecMeta> {
        Arc::new(RecMeta { inner, ctl, actor: actor.to_string() })
    }
}

fn injected(mode: FaultMode, what: &str) -> Error {
    Error::Metadata(format!(
        "injected catalog fault ({}) on {}",
        if mode == FaultMode::Before { "before effect" } else { "after effect" },
        what
    ))
}

/// Wrap one delegated call: gate, fault plan, logging. `$mutating` calls honour fail-after
/// (apply, then report an error); for reads both fault modes mean "error, no effect".
macro_rules! wrap {
    ($self:ident, $name:expr, $desc:expr, $call:expr, $show:expr) => {{
        let op = concat!("META:", $name);
        let desc: String = $desc;
        let (req, d) = $self.ctl.gate_call(&$self.actor, op, &desc).await;
        match d {
            Release::Fail(FaultMode::Before) => {
                $self.ctl.gate_return(req, &$self.actor, op, &desc, "injected-before");
                Err(injected(FaultMode::Before, $name))
            }
            Release::Fail(FaultMode::After) => {
                let r = $call.await;
                $self.ctl.gate_return(
                    req,
                    &$self.actor,
                    op,
                    &desc,
                    &format!("injected-after({})", if r.is_ok() { "applied" } else { "not-applied" }),
                );
                Err(injected(FaultMode::After, $name))
            }
            Release::Proceed => {
                let r = $call.await;
                let shown = match &r {
                    Ok(v) => format!("ok|{}", $show(v)),
                    Err(e) => format!("err|{}", e),
                };
                $self.ctl.gate_return(req, &$self.actor, op, &desc, &shown);
                r
            }
        }
    }};
}

fn entries(v: &Vec<TimeIndexEntry>) -> String {
    let mut p: Vec<&str> = v.iter().map(|e| e.chunk_path.as_str()).collect();
    p.sort();
    serde_json::to_string(&p).unwrap_or_default()
}

#[async_trait]
impl MetadataClient for RecMeta {
    async fn register_chunk(&self, path: &str, metadata: &ChunkMetadata) -> Result<()> {
        wrap!(
            self,
            "register_chunk",
            format!("{}|{}|{}|{}", path, metadata.min_timestamp, metadata.max_timestamp, metadata.row_count),
            self.inner.register_chunk(path, metadata),
            |_v: &()| String::new()
        )
    }
    async fn get_chunks(&self, range: TimeRange) -> Result<Vec<TimeIndexEntry>> {
        wrap!(self, "get_chunks", format!("{}|{}", range.start, range.end), self.inner.get_chunks(range), entries)
    }
    async fn get_chunks_with_predicates(&self, range: TimeRange, predicates: &[ColumnPredicate]) -> Result<Vec<TimeIndexEntry>> {
        wrap!(
            self,
            "get_chunks_with_predicates",
            format!("{}|{}|{}", range.start, range.end, predicates.len()),
            self.inner.get_chunks_with_predicates(range, predicates),
            entries
        )
    }
    async fn get_chunk(&self, path: &str) -> Result<Option<ChunkMetadata>> {
        wrap!(self, "get_chunk", path.to_string(), self.inner.get_chunk(path), |v: &Option<ChunkMetadata>| format!("{}", v.is_some()))
    }
    async fn delete_chunk(&self, path: &str) -> Result<()> {
        wrap!(self, "delete_chunk", path.to_string(), self.inner.delete_chunk(path), |_v: &()| String::new())
    }
    async fn list_chunks(&self) -> Result<Vec<TimeIndexEntry>> {
        wrap!(self, "list_chunks", String::new(), self.inner.list_chunks(), entries)
    }
    async fn get_l0_candidates(&self, min_count: usize) -> Result<Vec<Vec<String>>> {
        wrap!(self, "get_l0_candidates", format!("{}", min_count), self.inner.get_l0_candidates(min_count), |v: &Vec<Vec<String>>| {
            serde_json::to_string(v).unwrap_or_default()
        })
    }
    async fn get_level_candidates(&self, level: usize, target_size: usize) -> Result<Vec<Vec<String>>> {
        wrap!(
            self,
            "get_level_candidates",
            format!("{}|{}", level, target_size),
            self.inner.get_level_candidates(level, target_size),
            |v: &Vec<Vec<String>>| serde_json::to_string(v).unwrap_or_default()
        )
    }
    async fn create_compaction_job(&self, job: CompactionJob) -> Result<()> {
        wrap!(self, "create_compaction_job", job.id.clone(), self.inner.create_compaction_job(job), |_v: &()| String::new())
    }
    async fn complete_compaction(&self, source_chunks: &[String], target_chunk: &str) -> Result<()> {
        wrap!(
            self,
            "complete_compaction",
            format!("{}|{}", serde_json::to_string(source_chunks).unwrap_or_default(), target_chunk),
            self.inner.complete_compaction(source_chunks, target_chunk),
            |_v: &()| String::new()
        )
    }
    async fn swap_compacted_chunk(&self, source_chunks: &[String], target: &ChunkMetadata) -> Result<()> {
        wrap!(
            self,
            "swap_compacted_chunk",
            format!("{}|{}|{}|{}|{}", serde_json::to_string(source_chunks).unwrap_or_default(), target.path, target.min_timestamp, target.max_timestamp, target.row_count),
            self.inner.swap_compacted_chunk(source_chunks, target),
            |_v: &()| String::new()
        )
    }
    async fn update_compaction_status(&self, job_id: &str, status: CompactionStatus) -> Result<()> {
        wrap!(
            self,
            "update_compaction_status",
            format!("{}|{:?}", job_id, status),
            self.inner.update_compaction_status(job_id, status),
            |_v: &()| String::new()
        )
    }
    async fn get_pending_compaction_jobs(&self) -> Result<Vec<CompactionJob>> {
        wrap!(self, "get_pending_compaction_jobs", String::new(), self.inner.get_pending_compaction_jobs(), |v: &Vec<CompactionJob>| {
            format!("{}", v.len())
        })
    }
    async fn cleanup_completed_jobs(&self, max_age_secs: i64) -> Result<usize> {
        wrap!(self, "cleanup_completed_jobs", format!("{}", max_age_secs), self.inner.cleanup_completed_jobs(max_age_secs), |v: &usize| {
            format!("{}", v)
        })
    }
    async fn start_split(&self, old_shard: &str, new_shards: Vec<String>, split_point: Vec<u8>) -> Result<()> {
        wrap!(
            self,
            "start_split",
            format!("{}|{:?}", old_shard, new_shards),
            self.inner.start_split(old_shard, new_shards.clone(), split_point.clone()),
            |_v: &()| String::new()
        )
    }
    async fn get_split_state(&self, shard_id: &str) -> Result<Option<SplitState>> {
        wrap!(self, "get_split_state", shard_id.to_string(), self.inner.get_split_state(shard_id), |v: &Option<SplitState>| {
            v.as_ref().map(|s| format!("{:?}", s.phase)).unwrap_or_else(|| "none".into())
        })
    }
    async fn update_split_progress(&self, shard_id: &str, progress: f64, phase: SplitPhase) -> Result<()> {
        wrap!(
            self,
            "update_split_progress",
            format!("{}|{}|{:?}", shard_id, progress, phase),
            self.inner.update_split_progress(shard_id, progress, phase),
            |_v: &()| String::new()
        )
    }
    async fn complete_split(&self, old_shard: &str) -> Result<()> {
        wrap!(self, "complete_split", old_shard.to_string(), self.inner.complete_split(old_shard), |_v: &()| String::new())
    }
    async fn get_chunks_for_shard(&self, shard_id: &str) -> Result<Vec<TimeIndexEntry>> {
        wrap!(self, "get_chunks_for_shard", shard_id.to_string(), self.inner.get_chunks_for_shard(shard_id), entries)
    }
    async fn get_shard_metadata(&self, shard_id: &str) -> Result<Option<ShardMetadata>> {
        wrap!(self, "get_shard_metadata", shard_id.to_string(), self.inner.get_shard_metadata(shard_id), |v: &Option<ShardMetadata>| {
            v.as_ref().map(|s| format!("gen={} {:?}", s.generation, s.state)).unwrap_or_else(|| "none".into())
        })
    }
    async fn update_shard_metadata(&self, shard_id: &str, metadata: &ShardMetadata, expected_generation: u64) -> Result<()> {
        wrap!(
            self,
            "update_shard_metadata",
            format!("{}|{}|{:?}", shard_id, expected_generation, metadata.state),
            self.inner.update_shard_metadata(shard_id, metadata, expected_generation),
            |_v: &()| String::new()
        )
    }
    async fn acquire_lease(&self, node_id: &str, chunks: &[String], level: u32) -> Result<CompactionLease> {
        wrap!(
            self,
            "acquire_lease",
            format!("{}|{}|{}", node_id, serde_json::to_string(chunks).unwrap_or_default(), level),
            self.inner.acquire_lease(node_id, chunks, level),
            |v: &CompactionLease| v.lease_id.clone()
        )
    }
    async fn complete_lease(&self, lease_id: &str) -> Result<()> {
        wrap!(self, "complete_lease", lease_id.to_string(), self.inner.complete_lease(lease_id), |_v: &()| String::new())
    }
    async fn fail_lease(&self, lease_id: &str) -> Result<()> {
        wrap!(self, "fail_lease", lease_id.to_string(), self.inner.fail_lease(lease_id), |_v: &()| String::new())
    }
    async fn renew_lease(&self, lease_id: &str) -> Result<()> {
        wrap!(self, "renew_lease", lease_id.to_string(), self.inner.renew_lease(lease_id), |_v: &()| String::new())
    }
    async fn load_leases(&self) -> Result<CompactionLeases> {
        wrap!(self, "load_leases", String::new(), self.inner.load_leases(), |v: &CompactionLeases| format!("{}", v.leases.len()))
    }
    async fn scavenge_leases(&self) -> Result<usize> {
        wrap!(self, "scavenge_leases", String::new(), self.inner.scavenge_leases(), |v: &usize| format!("{}", v))
    }
    async fn active_split_new_shards(&self) -> Result<Vec<String>> {
        wrap!(self, "active_split_new_shards", String::new(), self.inner.active_split_new_shards(), |v: &Vec<String>| format!("{:?}", v))
    }
    async fn has_active_split(&self) -> Result<bool> {
        wrap!(self, "has_active_split", String::new(), self.inner.has_active_split(), |v: &bool| format!("{}", v))
    }
}
