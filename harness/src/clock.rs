//! Process-wide interposition of libc `clock_gettime`.
//!
//! The symbol defined here wins over libc's for the whole executable, so
//! std::time::{SystemTime, Instant}, chrono::Utc::now() and therefore
//! cardinalsin's BoundedClock, lease expiry, GC grace, retention cut-off and
//! SQL now() all read the harness clock. No change to the repository needed.
//!
//! CLOCK_REALTIME: live + offset, or *frozen* at an instant that only moves
//! when the harness says so (simulations). CLOCK_MONOTONIC*: live + offset.

use std::sync::atomic::{AtomicBool, AtomicI64, Ordering};

static REAL_OFFSET_NS: AtomicI64 = AtomicI64::new(0);
static MONO_OFFSET_NS: AtomicI64 = AtomicI64::new(0);
static FROZEN: AtomicBool = AtomicBool::new(false);
static FROZEN_NS: AtomicI64 = AtomicI64::new(0);

fn raw(clk: libc::clockid_t) -> i64 {
    let mut ts = libc::timespec {
        tv_sec: 0,
        tv_nsec: 0,
    };
    unsafe {
        libc::syscall(libc::SYS_clock_gettime, clk, &mut ts as *mut libc::timespec);
    }
    ts.tv_sec as i64 * 1_000_000_000 + ts.tv_nsec as i64
}

#[no_mangle]
pub extern "C" fn clock_gettime(clk: libc::clockid_t, ts: *mut libc::timespec) -> libc::c_int {
    let ns = match clk {
        libc::CLOCK_REALTIME | libc::CLOCK_REALTIME_COARSE => {
            if FROZEN.load(Ordering::Acquire) {
                FROZEN_NS.load(Ordering::Acquire)
            } else {
                raw(libc::CLOCK_REALTIME) + REAL_OFFSET_NS.load(Ordering::Acquire)
            }
        }
        libc::CLOCK_MONOTONIC | libc::CLOCK_MONOTONIC_COARSE | libc::CLOCK_MONOTONIC_RAW
        | libc::CLOCK_BOOTTIME => raw(clk) + MONO_OFFSET_NS.load(Ordering::Acquire),
        _ => {
            return unsafe { libc::syscall(libc::SYS_clock_gettime, clk, ts) as libc::c_int };
        }
    };
    if !ts.is_null() {
        unsafe {
            (*ts).tv_sec = ns.div_euclid(1_000_000_000) as libc::time_t;
            (*ts).tv_nsec = ns.rem_euclid(1_000_000_000) as libc::c_long;
        }
    }
    0
}

/// Real (un-interposed) monotonic nanoseconds: for harness watchdogs and wall_s.
pub fn real_mono_ns() -> i64 {
    raw(libc::CLOCK_MONOTONIC)
}

/// Freeze the wall clock at `ns` (nanoseconds since the epoch).
pub fn freeze_wall(ns: i64) {
    FROZEN_NS.store(ns, Ordering::Release);
    FROZEN.store(true, Ordering::Release);
}

/// Current value of the wall clock as the code under test sees it.
pub fn wall_ns() -> i64 {
    if FROZEN.load(Ordering::Acquire) {
        FROZEN_NS.load(Ordering::Acquire)
    } else {
        raw(libc::CLOCK_REALTIME) + REAL_OFFSET_NS.load(Ordering::Acquire)
    }
}

/// Advance the frozen wall clock (or the live offset) by `d_ns`.
pub fn advance_wall(d_ns: i64) {
    if FROZEN.load(Ordering::Acquire) {
        FROZEN_NS.fetch_add(d_ns, Ordering::AcqRel);
    } else {
        REAL_OFFSET_NS.fetch_add(d_ns, Ordering::AcqRel);
    }
}

pub fn unfreeze_wall() {
    FROZEN.store(false, Ordering::Release);
}

/// Jump CLOCK_MONOTONIC forward (std::time::Instant, hence cache TTLs and
/// heartbeat ages).
pub fn advance_mono(d_ns: i64) {
    MONO_OFFSET_NS.fetch_add(d_ns, Ordering::AcqRel);
}

/// A fixed, realistic base instant for simulations: 2026-03-01T12:00:00Z.
pub const SIM_EPOCH_NS: i64 = 1_772_366_400_000_000_000;

/// Self-test used by `csverif selftest`: the interposition must be effective.
pub fn selftest() -> Result<(), String> {
    freeze_wall(SIM_EPOCH_NS);
    let a = chrono::Utc::now().timestamp_nanos_opt().unwrap_or(0);
    let b = std::time::SystemTime::now()
        .duration_since(std::time::UNIX_EPOCH)
        .map(|d| d.as_nanos() as i64)
        .unwrap_or(0);
    advance_wall(3_600_000_000_000);
    let c = chrono::Utc::now().timestamp_nanos_opt().unwrap_or(0);
    let i0 = std::time::Instant::now();
    advance_mono(61_000_000_000);
    let el = i0.elapsed().as_secs();
    unfreeze_wall();
    if a != SIM_EPOCH_NS || b != SIM_EPOCH_NS || c != SIM_EPOCH_NS + 3_600_000_000_000 {
        return Err(format!("wall clock not interposed: {a} {b} {c}"));
    }
    if !(61..=62).contains(&el) {
        return Err(format!("monotonic clock not interposed: elapsed {el}s"));
    }
    Ok(())
}

// ---------------------------------------------------------------------------
// Durability watch: interposed fdatasync / fsync.
//
// std's File::sync_data / sync_all (and therefore tokio's) call libc's
// fdatasync / fsync, which resolve to the symbols below. Each successful call
// records "this file is durable up to its current length". A check can then
// ask, at the instant a write is acknowledged, whether every byte of the WAL
// has been synced - the observation a file-copy crash image cannot make (the
// page cache survives a process crash but not a power loss).

static DURABLE: std::sync::Mutex<Option<std::collections::HashMap<String, u64>>> = std::sync::Mutex::new(None);
static SYNC_CALLS: std::sync::atomic::AtomicU64 = std::sync::atomic::AtomicU64::new(0);

fn note_synced(fd: libc::c_int) {
    SYNC_CALLS.fetch_add(1, Ordering::Relaxed);
    let mut st: libc::stat = unsafe { std::mem::zeroed() };
    if unsafe { libc::fstat(fd, &mut st) } != 0 {
        return;
    }
    let link = format!("/proc/self/fd/{}", fd);
    if let Ok(p) = std::fs::read_link(&link) {
        let mut g = DURABLE.lock().unwrap_or_else(|e| e.into_inner());
        g.get_or_insert_with(Default::default).insert(p.to_string_lossy().to_string(), st.st_size as u64);
    }
}

#[no_mangle]
pub extern "C" fn fdatasync(fd: libc::c_int) -> libc::c_int {
    let r = unsafe { libc::syscall(libc::SYS_fdatasync, fd) as libc::c_int };
    if r == 0 {
        note_synced(fd);
    }
    r
}

#[no_mangle]
pub extern "C" fn fsync(fd: libc::c_int) -> libc::c_int {
    let r = unsafe { libc::syscall(libc::SYS_fsync, fd) as libc::c_int };
    if r == 0 {
        note_synced(fd);
    }
    r
}

/// Length up to which `path` has been synced (None = never synced since the last reset).
pub fn durable_len(path: &str) -> Option<u64> {
    DURABLE.lock().unwrap_or_else(|e| e.into_inner()).as_ref().and_then(|m| m.get(path).copied())
}

pub fn sync_calls() -> u64 {
    SYNC_CALLS.load(Ordering::Relaxed)
}

/// Bytes of WAL segment files under `dir` that are NOT covered by a sync: (file, size, durable).
pub fn unsynced_wal_bytes(dir: &str) -> Vec<(String, u64, u64)> {
    let mut v = vec![];
    if let Ok(rd) = std::fs::read_dir(dir) {
        for e in rd.flatten() {
            let name = e.file_name().to_string_lossy().to_string();
            if !name.starts_with("segment-") {
                continue;
            }
            let size = e.metadata().map(|m| m.len()).unwrap_or(0);
            let p = e.path().to_string_lossy().to_string();
            let canon = std::fs::canonicalize(&p).map(|c| c.to_string_lossy().to_string()).unwrap_or(p.clone());
            let d = durable_len(&canon).or_else(|| durable_len(&p)).unwrap_or(0);
            if d < size {
                v.push((name, size, d));
            }
        }
    }
    v
}
